#!/usr/bin/env python3
"""Regenerates MANIFEST.json from checks/*.py (MANIFEST entries live next to the checks they describe)."""
import importlib, json, os, sys, glob
HERE = os.path.dirname(os.path.abspath(__file__))
sys.path.insert(0, HERE)
props = [json.loads(l) for l in open(os.path.join(HERE, "properties.jsonl"))]
checks, na = [], []
NA = json.load(open(os.path.join(HERE, "not_applicable.json")))
for p in props:
    pid = p["id"]
    if os.path.exists(os.path.join(HERE, "checks", pid + ".py")) and pid not in NA:
        m = importlib.import_module("checks." + pid)
        M = m.META
        c = {"property_id": pid,
             "quick_cmd": "python3 run_check.py %s --tier quick" % pid,
             "thorough_cmd": "python3 run_check.py %s --tier thorough" % pid,
             "evidence_file": "/verif/evidence/%s.json" % pid,
             "replay_cmd_template": "sh {path}",
             "engine": M.get("engine", "E1 unit"),
             "level_claimed": {"category": "model_checking", "text": M["level_text"], "design_ref": "DESIGN.md §3 " + pid},
             "level_note": M["level_note"],
             "technique": M.get("technique", "bounded symbolic execution of the real C code with CBMC (SAT/SMT back end), counterexample replay under ASan/UBSan")}
        checks.append(c)
    else:
        na.append({"property_id": pid, "reason": NA.get(pid, "no check built yet for this property (work in progress; see DESIGN.md §3 for the plan)")})
man = {
    "version": 1,
    "setup_cmd": "python3 setup_check.py",
    "hooks": {"guard": "SVT_AV1_VERIF", "enable": "harnesses are compiled with -DSVT_AV1_VERIF=1 by goto-cc; no source hooks are needed (statics reached by #include of the real .c file, environment replaced at link level)",
              "baseline_off_cmd": "cmake -G Ninja -S /repo -B /repo/_build -DCMAKE_BUILD_TYPE=RelWithDebInfo -DBUILD_TESTING=ON -DCMAKE_C_FLAGS=-Wno-error -DCMAKE_CXX_FLAGS=-Wno-error && cmake --build /repo/_build && ctest --test-dir /repo/_build -j8 --timeout 900",
              "source_commits": [], "add_only": True},
    "engines": [
        {"name": "E1 unit", "path": "vlib/core.py", "serves_properties": [c["property_id"] for c in checks],
         "kind_free_text": "goto-cc on real svt-av1 translation units + CBMC bounded symbolic execution; witness (vacuity) guard; gcc+ASan/UBSan replay of counterexamples"}],
    "checks": checks,
    "not_applicable": na,
    "notes": "All checks: python3 run_check.py <id> --tier quick|thorough. Exit 0 held / 1 VIOLATION / 2 inconclusive. See DESIGN.md.",
}
json.dump(man, open(os.path.join(HERE, "MANIFEST.json"), "w"), indent=1)
print("checks:", [c["property_id"] for c in checks], "not_applicable:", len(na))
