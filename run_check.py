#!/usr/bin/env python3
"""usage: run_check.py <property id> [--tier quick|thorough] [--only <regex>] [--keep]
Exit 0: property held on everything explored; 1: VIOLATION (replay path printed);
2: inconclusive (timeout, harness generation failure, unreproduced counterexample)."""
import argparse
import importlib
import os
import re
import sys

sys.path.insert(0, os.path.dirname(os.path.abspath(__file__)))
from vlib import core  # noqa: E402


def main():
    ap = argparse.ArgumentParser()
    ap.add_argument("prop")
    ap.add_argument("--tier", default=os.environ.get("VERIF_TIER", "quick"))
    ap.add_argument("--only", default=None)
    ap.add_argument("--keep", action="store_true")
    ap.add_argument("--jobs", type=int, default=None)
    a = ap.parse_args()
    seed = int(os.environ.get("VERIF_SEED", "0") or 0)
    mod = importlib.import_module("checks." + a.prop)
    qs = mod.queries(a.tier)
    if a.only:
        qs = [q for q in qs if re.search(a.only, q.name)]
    names = [q.name for q in qs]
    assert len(names) == len(set(names)), "duplicate query names"
    run = core.Runner(a.prop, a.tier, seed)
    try:
        res = run.run(qs, jobs=a.jobs)
        extra = getattr(mod, "post", None)
        if extra:
            extra(run, res)
        if a.only:
            for r in res:
                print(r["name"], r["status"], r["reason"][:2000])
                for fp in r["failed"]:
                    print("   FAILED:", fp["description"], "@", fp["location"])
                for e in r.get("replay", []) or []:
                    print("   replay:", e)
            return 0 if all(r["status"] == "pass" for r in res) else 1
        rc = core.finish(a.prop, a.tier, seed, run, res, mod.META)
    finally:
        if not a.keep:
            run.cleanup()
    return rc


if __name__ == "__main__":
    sys.exit(main())
