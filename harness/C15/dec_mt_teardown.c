/* C15/C09 (decoder teardown after multi-threaded decoding): the tail of dec_system_resource_init (EbDecProcess.c, sliced
 * verbatim from the scratch array of per-thread module contexts to the end of the function; thread/semaphore creation and
 * init_dec_mod_ctxt are stubs that only register a library allocation) followed by the real svt_av1_dec_deinit.
 * Every free() is checked: each library allocation is released exactly once. */
#include "verif.h"
#include "EbDefinitions.h"
#include "EbSvtAv1Dec.h"
#include "EbDecHandle.h"
#include "EbDecMemInit.h"
#include "EbDecProcess.h"
#include "EbDecProcessFrame.h"
static int synced;
void dec_sync_all_threads(EbDecHandle *h) { (void)h; synced++; }
EbErrorType svt_destroy_semaphore(EbHandle h) { (void)h; return EB_ErrorNone; }
EbErrorType svt_destroy_thread(EbHandle h) { (void)h; return EB_ErrorNone; }
EbErrorType svt_destroy_mutex(EbHandle h) { (void)h; return EB_ErrorNone; }
#undef EB_CREATE_SEMAPHORE
#undef EB_CREATE_THREAD_ARRAY
#define EB_CREATE_SEMAPHORE(p, a, b) do { (p) = (EbHandle)(uintptr_t)1; } while (0)
#define EB_CREATE_THREAD_ARRAY(pa, n, fn, ctx) do { (pa) = NULL; } while (0)
#include "c15_dec.inc"     /* memory-map globals, svt_dec_handle_ctor, svt_av1_dec_deinit, svt_dec_component_de_init */
EbErrorType init_dec_mod_ctxt(EbDecHandle *dec_handle_ptr, void **pp) { (void)dec_handle_ptr; EB_MALLOC_DEC(void *, *pp, 8, EB_N_PTR); return EB_ErrorNone; }
void *dec_all_stage_kernel(void *p) { return p; }
#include "c15_dec_mt.inc"  /* static EbErrorType mt_resources_tail(EbDecHandle *dec_handle_ptr, DecMtFrameData *dec_mt_frame_data) */
void harness(void) {
    EbComponentType *c = (EbComponentType *)malloc(sizeof *c); V_ASSUME(c != NULL);
    EbErrorType e = svt_dec_handle_ctor((EbDecHandle **)&c->p_component_private, c);
    V_ASSUME(e == EB_ErrorNone && c->p_component_private != NULL);
    EbDecHandle *h = (EbDecHandle *)c->p_component_private; V_ASSUME(h->memory_map != NULL);
    h->dec_config.threads = (uint64_t)vin_range(2, 3);
    h->start_thread_process = (EbBool)vinbool();
    if (h->start_thread_process) { h->thread_ctxt_pa = (DecThreadCtxt *)malloc(sizeof(DecThreadCtxt) * 2); V_ASSUME(h->thread_ctxt_pa != NULL); }
    h->seq_header.color_config.bit_depth = EB_8BIT; h->is_16bit_pipeline = 0;
    DecMtFrameData *fd = &h->main_frame_buf.cur_frame_bufs[0].dec_mt_frame_data;
    e = mt_resources_tail(h, fd); V_ASSUME(e == EB_ErrorNone);
    e = svt_av1_dec_deinit(c);
    V_ASSERT(e == EB_ErrorNone, "deinit reports success");
    if (h->start_thread_process) free(h->thread_ctxt_pa);
    e = svt_dec_component_de_init(c);
    free(c);
    V_END();
}
#ifndef VERIF_CBMC
int main(void) { harness(); puts("REPLAY-OK"); return 0; }
#endif
