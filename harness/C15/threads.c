/* C15: every pipeline thread created by svt_av1_enc_init is joined by teardown.
 * The thread-creation statements of svt_av1_enc_init (all EB_CREATE_THREAD / EB_CREATE_THREAD_ARRAY
 * invocations, extracted verbatim) and the real svt_enc_handle_stop_threads (sliced by name) run with the
 * thread macros replaced by a live-thread counter, for arbitrary per-stage process counts. */
#include "verif.h"
#include "EbDefinitions.h"
#include "EbSequenceControlSet.h"
#include "EbEncHandle.h"
static int live_threads, created_threads;
static char thread_tokens[64];
#undef EB_CREATE_THREAD
#undef EB_CREATE_THREAD_ARRAY
#undef EB_DESTROY_THREAD
#undef EB_DESTROY_THREAD_ARRAY
#define EB_CREATE_THREAD(pointer, fn, ctx) do { pointer = (EbHandle)&thread_tokens[0]; live_threads++; created_threads++; } while (0)
#define EB_CREATE_THREAD_ARRAY(pa, count, fn, ctxs) do { pa = arr_##__LINE__; for (uint32_t i_ = 0; i_ < (count); i_++) { (pa)[i_] = (EbHandle)&thread_tokens[1]; live_threads++; created_threads++; } } while (0)
#define EB_DESTROY_THREAD(pointer) do { if (pointer) { live_threads--; pointer = NULL; } } while (0)
#define EB_DESTROY_THREAD_ARRAY(pa, count) do { if (pa) { for (uint32_t i_ = 0; i_ < (count); i_++) EB_DESTROY_THREAD((pa)[i_]); pa = NULL; } } while (0)
#define MAXP 3
static EbHandle pools[16][MAXP + 1]; static int pool_n;
#include "c15_threads.inc"    /* static void create_threads(EbEncHandle*, SequenceControlSet*); static void svt_enc_handle_stop_threads(EbEncHandle*) */
void harness(void) {
    EbEncHandle *h = (EbEncHandle *)calloc(1, sizeof *h);
    SequenceControlSet *scs = (SequenceControlSet *)malloc(sizeof *scs);
    EbSequenceControlSetInstance *inst = (EbSequenceControlSetInstance *)calloc(1, sizeof *inst), **arr = (EbSequenceControlSetInstance **)calloc(1, sizeof *arr);
    V_ASSUME(h && scs && inst && arr);
    arr[0] = inst; inst->scs_ptr = scs; h->scs_instance_array = arr;
#define CNT(f) scs->f = (uint32_t)vin_range(0, MAXP)
    CNT(picture_analysis_process_init_count); CNT(motion_estimation_process_init_count); CNT(source_based_operations_process_init_count); CNT(inlme_process_init_count);
    CNT(mode_decision_configuration_process_init_count); CNT(enc_dec_process_init_count); CNT(dlf_process_init_count); CNT(cdef_process_init_count); CNT(rest_process_init_count); CNT(entropy_coding_process_init_count);
    create_threads(h, scs);
    V_ASSERT(live_threads == created_threads && created_threads >= 6, "threads created");
    svt_enc_handle_stop_threads(h);
    V_ASSERT(live_threads == 0, "every pipeline thread created by init is joined by teardown, for every per-stage process count");
    V_END();
}
#ifndef VERIF_CBMC
int main(void) { harness(); puts("REPLAY-OK"); return 0; }
#endif
