/* C15 (decoder teardown): real svt_dec_handle_ctor, svt_av1_dec_deinit and svt_dec_component_de_init of
 * EbDecHandle.c (the file-scope memory-map globals and these functions are sliced from the real file), with K
 * library allocations registered through the real EB_MALLOC_DEC macro in between (K = 0 is "deinit right after
 * handle creation", K >= 1 is "after init").  Heap memory is arbitrary until written (CBMC's malloc), every free()
 * is checked: no free of a pointer that is not a live heap object, no double free, nothing left allocated. */
#include "verif.h"
#include "EbDefinitions.h"
#include "EbSvtAv1Dec.h"
#include "EbDecHandle.h"
#include "EbDecMemInit.h"
#ifndef K
#define K 0
#endif
static int synced;
void dec_sync_all_threads(EbDecHandle *h) { (void)h; synced++; }
EbErrorType svt_destroy_semaphore(EbHandle h) { (void)h; return EB_ErrorNone; }
EbErrorType svt_destroy_thread(EbHandle h) { (void)h; return EB_ErrorNone; }
EbErrorType svt_destroy_mutex(EbHandle h) { (void)h; return EB_ErrorNone; }
#include "c15_dec.inc"
static EbErrorType lib_allocs(void) {
    void *p;
    for (int i = 0; i < K; i++) { EB_MALLOC_DEC(void *, p, (size_t)vin_range(1, 16), EB_N_PTR); }
    return EB_ErrorNone;
}
void harness(void) {
    EbComponentType *c = (EbComponentType *)malloc(sizeof *c); V_ASSUME(c != NULL);
    EbErrorType e = svt_dec_handle_ctor((EbDecHandle **)&c->p_component_private, c);
    V_ASSUME(e == EB_ErrorNone && c->p_component_private != NULL && ((EbDecHandle *)c->p_component_private)->memory_map != NULL);   /* allocation failure is C16's subject */
    e = lib_allocs(); V_ASSUME(e == EB_ErrorNone);
#if K > 0
    ((EbDecHandle *)c->p_component_private)->dec_config.threads = (uint64_t)vin_range(1, 4);   /* set by svt_av1_dec_set_parameter before init */
#endif
    e = svt_av1_dec_deinit(c);
    V_ASSERT(e == EB_ErrorNone, "deinit reports success");
    e = svt_dec_component_de_init(c);
    V_ASSERT(e == EB_ErrorNone, "handle released");
    free(c);
    V_END();
}
#ifndef VERIF_CBMC
int main(void) { harness(); puts("REPLAY-OK"); return 0; }
#endif
