/* C06: dispatch soundness of the run-time CPU dispatch tables.  The real setup_common_rtcd_internal
 * (common_dsp_rtcd.c, WHICH=1) / setup_rtcd_internal (aom_dsp_rtcd.c, WHICH=2) with arbitrary requested flags
 * and arbitrary detected CPU flags.  Assertions are generated from the file's own SET_* lines. */
#include "verif.h"
#if WHICH == 1
#include "Source/Lib/Common/Codec/common_dsp_rtcd.c"
#define SETUP setup_common_rtcd_internal
/* cpuinfo's ISA table (an extern object of the cpuinfo library) is unconstrained: the real get_cpu_flags()
   then returns an arbitrary, but fixed, detected-flags word */
bool cpuinfo_initialize(void) { return true; }
#else
#include "Source/Lib/Encoder/Codec/aom_dsp_rtcd.c"
#define SETUP setup_rtcd_internal
CPU_FLAGS get_cpu_flags_to_use(void);
#endif
static CPU_FLAGS detected;
#if WHICH == 1
#else
CPU_FLAGS get_cpu_flags_to_use(void) { return detected & (CPU_FLAGS_AVX512F - 1); }
#endif
void harness(void) {
#if WHICH == 1
    detected = get_cpu_flags();
#else
    detected = (CPU_FLAGS)vin64();
#endif
    CPU_FLAGS req = (CPU_FLAGS)vin64();
    SETUP(req);
    CPU_FLAGS eff = req & detected & (CPU_FLAGS_AVX512F - 1);      /* build has EN_AVX512_SUPPORT == 0 */
    (void)eff;
#include "c06_asserts.inc"
    V_END();
}
#ifndef VERIF_CBMC
int main(void) { harness(); puts("REPLAY-OK"); return 0; }
#endif
