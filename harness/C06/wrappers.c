/* C06 (guarded dispatch wrappers): un_pack2d / pack2d_src of EbPictureOperators.c (sliced by name) choose between a
 * dispatched kernel that only supports width%4==0 && height%2==0 and the generic C routine.  The wrapper is run
 * twice on the same arbitrary samples, once with the dispatch pointer at the C reference (what use_cpu_flags=0
 * selects) and once at the SIMD variant (SSE2 / AVX2): outputs must be identical for EVERY width/height of the
 * query, in particular for the sizes the SIMD kernel does not support. */
#include "verif.h"
#include "ia32_models.h"
#include "EbDefinitions.h"
#include "EbPackUnPack_C.h"
#include "Source/Lib/Common/ASM_SSE2/EbPackUnPack_Intrinsic_SSE2.c"
#include "Source/Lib/Common/C_DEFAULT/EbPackUnPack_C.c"
#if WHICH == 2
#include "Source/Lib/Common/ASM_AVX2/EbPictureOperators_Intrinsic_AVX2.c"
#endif
void (*svt_pack2d_16_bit_src_mul4)(uint8_t *in8_bit_buffer, uint32_t in8_stride, uint8_t *inn_bit_buffer, uint16_t *out16_bit_buffer, uint32_t inn_stride, uint32_t out_stride, uint32_t width, uint32_t height);
void (*svt_un_pack2d_16_bit_src_mul4)(uint16_t *in16_bit_buffer, uint32_t in_stride, uint8_t *out8_bit_buffer, uint8_t *outn_bit_buffer, uint32_t out8_stride, uint32_t outn_stride, uint32_t width, uint32_t height);
#include "c06_wrappers.inc"
#ifndef W
#define W 6
#endif
#ifndef H
#define H 2
#endif
#define S16 (W + 2)
#define S8 (W + 1)
#define SN (W + 3)
void harness(void) {
#if WHICH == 1   /* un_pack2d: C vs SSE2 */
    uint16_t *in = (uint16_t *)malloc(sizeof(uint16_t) * S16 * H);
    uint8_t *o8a = (uint8_t *)malloc(S8 * H), *ona = (uint8_t *)malloc(SN * H), *o8b = (uint8_t *)malloc(S8 * H), *onb = (uint8_t *)malloc(SN * H);
    V_ASSUME(in && o8a && ona && o8b && onb);
    for (uint32_t i = 0; i < S16 * H; i++) { in[i] = vin16(); V_ASSUME(in[i] <= 1023); }
    for (uint32_t i = 0; i < S8 * H; i++) { o8a[i] = o8b[i] = 0x5A; }
    for (uint32_t i = 0; i < SN * H; i++) { ona[i] = onb[i] = 0x5A; }
    svt_un_pack2d_16_bit_src_mul4 = svt_enc_msb_un_pack2_d;
    un_pack2d(in, S16, o8a, S8, ona, SN, W, H);
    svt_un_pack2d_16_bit_src_mul4 = svt_enc_msb_un_pack2d_sse2_intrin;
    un_pack2d(in, S16, o8b, S8, onb, SN, W, H);
    for (uint32_t i = 0; i < S8 * H; i++) V_ASSERT(o8a[i] == o8b[i], "un_pack2d: 8-bit plane identical with the C and the SSE2 kernel selected");
    for (uint32_t i = 0; i < SN * H; i++) V_ASSERT(ona[i] == onb[i], "un_pack2d: 2-bit plane identical with the C and the SSE2 kernel selected");
#else            /* pack2d_src: C vs SSE2 (WHICH 3) / AVX2 (WHICH 2) */
    uint8_t *i8 = (uint8_t *)malloc(S8 * H), *inn = (uint8_t *)malloc(SN * H);
    uint16_t *oa = (uint16_t *)malloc(sizeof(uint16_t) * S16 * H), *ob = (uint16_t *)malloc(sizeof(uint16_t) * S16 * H);
    V_ASSUME(i8 && inn && oa && ob);
    for (uint32_t i = 0; i < S8 * H; i++) i8[i] = vin8();
    for (uint32_t i = 0; i < SN * H; i++) inn[i] = vin8();
    for (uint32_t i = 0; i < S16 * H; i++) { oa[i] = ob[i] = 0x5A5A; }
    svt_pack2d_16_bit_src_mul4 = svt_enc_msb_pack2_d;
    pack2d_src(i8, S8, inn, SN, oa, S16, W, H);
#if WHICH == 2
    svt_pack2d_16_bit_src_mul4 = svt_enc_msb_pack2d_avx2_intrin_al;
#else
    svt_pack2d_16_bit_src_mul4 = svt_enc_msb_pack2d_sse2_intrin;
#endif
    pack2d_src(i8, S8, inn, SN, ob, S16, W, H);
    for (uint32_t i = 0; i < S16 * H; i++) V_ASSERT(oa[i] == ob[i], "pack2d_src: 16-bit plane identical with the C and the SIMD kernel selected");
#endif
    V_END();
}
#ifndef VERIF_CBMC
int main(void) { harness(); puts("REPLAY-OK"); return 0; }
#endif
