/* C07: svt_av1_quantize_fp_avx2 (Encoder/ASM_AVX2/av1_quantize_avx2.c) vs svt_av1_quantize_fp_c (EbFullLoop.c, sliced by
 * name) on one 16-coefficient block.  Quantiser tables satisfy the relations of svt_av1_build_quantizer
 * (quant_fp = 65536 / dequant, round_fp = (64 * dequant) >> 7, dequant in the 8-bit AV1 range 4..1336), coefficients are
 * arbitrary 16-bit values, the scan is the identity. */
#include "verif.h"
#include "ia32_models.h"
#include "EbDefinitions.h"
#include "EbUtility.h"
#include "EbInvTransforms.h"
#include "Source/Lib/Encoder/ASM_AVX2/av1_quantize_avx2.c"
#include "c07_quant_c.inc"
#define N 16
#ifndef KIND
#define KIND 0
#endif
#if KIND == 0
#define Q_C svt_av1_quantize_fp_c
#define Q_S svt_av1_quantize_fp_avx2
#elif KIND == 1
#define Q_C svt_av1_quantize_fp_32x32_c
#define Q_S svt_av1_quantize_fp_32x32_avx2
#else
#define Q_C svt_av1_quantize_fp_64x64_c
#define Q_S svt_av1_quantize_fp_64x64_avx2
#endif
#ifndef DQ0
#define DQ0 83
#define DQ1 8
#endif
void harness(void) {
    TranLow *coeff = (TranLow *)malloc(sizeof(TranLow) * N), *q1 = (TranLow *)malloc(sizeof(TranLow) * N), *q2 = (TranLow *)malloc(sizeof(TranLow) * N),
            *d1 = (TranLow *)malloc(sizeof(TranLow) * N), *d2 = (TranLow *)malloc(sizeof(TranLow) * N);
    int16_t *deq = (int16_t *)malloc(16), *quant = (int16_t *)malloc(16), *rnd = (int16_t *)malloc(16), *zb = (int16_t *)malloc(16), *qs = (int16_t *)malloc(16);
    int16_t *scan = (int16_t *)malloc(2 * N), *iscan = (int16_t *)malloc(2 * N);
    V_ASSUME(coeff && q1 && q2 && d1 && d2 && deq && quant && rnd && zb && qs && scan && iscan);
    for (int i = 0; i < N; i++) { coeff[i] = (TranLow)(int16_t)vin16(); V_ASSUME(coeff[i] != -32768); /* |c| <= 32767: the AVX2 kernel packs to 16 bits, where +32768 does not exist */ scan[i] = (int16_t)i; iscan[i] = (int16_t)i; q1[i] = q2[i] = d1[i] = d2[i] = 0x5A5A; }
    for (int k = 0; k < 2; k++) {   /* [0] DC, [1] AC */
        /* dequant values are concrete per query: with symbolic tables the equivalence of the 16x16->32 and 64-bit multipliers
           did not finish in 900 s (a counterexample, when one exists, is found in seconds) */
        int dq = k == 0 ? DQ0 : DQ1; int qq = 65536 / dq;
        deq[k] = (int16_t)dq; quant[k] = (int16_t)qq; rnd[k] = (int16_t)((64 * dq) >> 7); zb[k] = 0; qs[k] = 0;
    }
    for (int k = 2; k < 8; k++) { deq[k] = deq[1]; quant[k] = quant[1]; rnd[k] = rnd[1]; zb[k] = 0; qs[k] = 0; }   /* the tables hold 8 entries: DC, then AC replicated */
    uint16_t e1 = 0xAAAA, e2 = 0x5555;
    Q_C(coeff, N, zb, rnd, quant, qs, q1, d1, deq, &e1, scan, iscan);
    Q_S(coeff, N, zb, rnd, quant, qs, q2, d2, deq, &e2, scan, iscan);
    for (int i = 0; i < N; i++) { V_ASSERT(q1[i] == q2[i], "quantised coefficient identical"); V_ASSERT(d1[i] == d2[i], "dequantised coefficient identical"); }
    V_ASSERT(e1 == e2, "end-of-block position identical");
    V_END();
}
#ifndef VERIF_CBMC
int main(void) { harness(); puts("REPLAY-OK"); return 0; }
#endif
