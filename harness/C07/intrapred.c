/* C07: intra-prediction kernels (uniform signature) -- SIMD variant vs. C reference named on the same SET_* dispatch
 * line, every content of the above/left edge arrays.  FN_C / FN_S / BLK_W / BLK_H / HIGHBD come from the dispatch table
 * (checks/C07.py parses common_dsp_rtcd.c on every run). */
#include "verif.h"
#include "ia32_models.h"
#include "c07_pred_srcs.inc"
/* the C references copy rows through the dispatched svt_memcpy pointer; installed as plain memcpy (what svt_memcpy_c is) */
void (*svt_memcpy)(void *dst_ptr, void const *src_ptr, size_t size);
static void v_memcpy(void *d, void const *s, size_t n) { memcpy(d, s, n); }
#define PAD 16
#define STRIDE (BLK_W + 3)
#if HIGHBD
typedef uint16_t PIX;
#define BD 10
#define RUN(f, d) f(d, STRIDE, above, left, BD)
void FN_C(uint16_t *dst, ptrdiff_t stride, const uint16_t *above, const uint16_t *left, int bd);
void FN_S(uint16_t *dst, ptrdiff_t stride, const uint16_t *above, const uint16_t *left, int bd);
#else
typedef uint8_t PIX;
#define RUN(f, d) f(d, STRIDE, above, left)
void FN_C(uint8_t *dst, ptrdiff_t stride, const uint8_t *above, const uint8_t *left);
void FN_S(uint8_t *dst, ptrdiff_t stride, const uint8_t *above, const uint8_t *left);
#endif
void harness(void) {
    /* edge arrays as the callers build them: 16 samples before above[0] (above[-1] is the top-left sample) and room for
       the above-right / bottom-left extensions */
    PIX *abuf = (PIX *)malloc(sizeof(PIX) * (PAD + 2 * BLK_W + PAD)), *lbuf = (PIX *)malloc(sizeof(PIX) * (PAD + 2 * BLK_H + PAD));
    PIX *d1 = (PIX *)malloc(sizeof(PIX) * STRIDE * BLK_H), *d2 = (PIX *)malloc(sizeof(PIX) * STRIDE * BLK_H);
    V_ASSUME(abuf && lbuf && d1 && d2);
    for (int i = 0; i < PAD + 2 * BLK_W + PAD; i++) { abuf[i] = (PIX)vin64(); if (HIGHBD) V_ASSUME(abuf[i] < (1 << 10)); }
    for (int i = 0; i < PAD + 2 * BLK_H + PAD; i++) { lbuf[i] = (PIX)vin64(); if (HIGHBD) V_ASSUME(lbuf[i] < (1 << 10)); }
    for (int i = 0; i < STRIDE * BLK_H; i++) { d1[i] = d2[i] = (PIX)0x5A; }
    svt_memcpy = v_memcpy;
    const PIX *above = abuf + PAD, *left = lbuf + PAD;
    RUN(FN_C, d1);
    RUN(FN_S, d2);
    for (int i = 0; i < STRIDE * BLK_H; i++) V_ASSERT(d1[i] == d2[i], "SIMD intra predictor output (and untouched samples) identical to the C reference");
    V_END();
}
#ifndef VERIF_CBMC
int main(void) { harness(); puts("REPLAY-OK"); return 0; }
#endif
