/* C07: svt_spatial_full_distortion_kernel_avx2 == svt_spatial_full_distortion_kernel_c for every 8-bit
 * input/recon content (extreme values included) of one concrete block geometry per query.
 * Buffers are exact-size heap objects of STRIDE*H bytes with STRIDE = W rounded up to 32 (the kernels'
 * documented use is on padded picture rows; a read past the last padded row is reported). */
#include "verif.h"
#ifndef V_REAL_SQUARE /* V_REAL_SQUARE: no abstraction, the kernels' own multiplications are encoded (feasible only for <= 2 symbolic pixels) */
#define V_ABSTRACT_SQUARE 1
#endif
#include "ia32_models.h"
#if defined(VERIF_CBMC) && defined(V_ABSTRACT_SQUARE)
#include "EbUtility.h"
#undef SQR
#define SQR(x) v_sq((int64_t)(x))
#elif defined(V_ABSTRACT_SQUARE)
static void v_sqt_init(void) { for (int i = 0; i < 256; i++) (void)vin16(); }
#elif !defined(VERIF_CBMC)
static void v_sqt_init(void) {}
#endif
#include "Source/Lib/Common/ASM_AVX2/EbPictureOperators_Intrinsic_AVX2.c"
#include "Source/Lib/Common/C_DEFAULT/EbPictureOperators_C.c"
#ifndef W
#define W 8
#endif
#ifndef H
#define H 2
#endif
#define STRIDE (((W) + 31) & ~31)
#ifndef SPARSE_N
#define SPARSE_N 4
#endif
void harness(void) {
    uint8_t *in = (uint8_t *)malloc(STRIDE * H), *re = (uint8_t *)malloc(STRIDE * H);
    V_ASSUME(in && re);
    v_sqt_init();
#if defined(SPARSE_G) && defined(VERIF_CBMC) && defined(V_ABSTRACT_SQUARE)
    V_SQT[0] = 0; /* 0*0 = 0: the family still contains the real squares */
#endif
#ifdef SPARSE_G
    /* sparse-difference family: SPARSE_N consecutive block pixels starting at pixel SPARSE_G*SPARSE_N carry arbitrary
     * input/recon values (extremes included); every other byte of both pictures is the same constant, so only
     * SPARSE_N terms of the reduction are symbolic (a 16-term symbolic sum is out of reach of the SAT back ends). */
    for (uint32_t i = 0; i < STRIDE * H; i++) {
        uint32_t r = i / STRIDE, c = i % STRIDE, px = r * W + c;
        if (c < W && px / SPARSE_N == SPARSE_G) { in[i] = vin8(); re[i] = vin8(); } else { in[i] = 0x80; re[i] = 0x80; }
    }
#else
    for (uint32_t i = 0; i < STRIDE * H; i++) { in[i] = vin8(); }
    for (uint32_t i = 0; i < STRIDE * H; i++) { re[i] = vin8(); }
#endif
    uint64_t c = svt_spatial_full_distortion_kernel_c(in, 0, STRIDE, re, 0, STRIDE, W, H);
    uint64_t s = svt_spatial_full_distortion_kernel_avx2(in, 0, STRIDE, re, 0, STRIDE, W, H);
    V_ASSERT(c == s, "AVX2 spatial SSE equals the C reference for every sample content");
    V_END();
}
#ifndef VERIF_CBMC
int main(void) { harness(); puts("REPLAY-OK"); return 0; }
#endif
