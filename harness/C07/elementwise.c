/* C07: element-wise SIMD kernels vs. their C references, every sample content of one concrete block geometry.
 * KERNEL selects the pair.  Buffers are exact-size heap objects (stride*H elements) so any access outside the
 * block rows is a pointer-check failure; destination bytes outside the block must stay untouched. */
#include "verif.h"
#include "ia32_models.h"
#include "Source/Lib/Common/ASM_AVX2/EbPictureOperators_Intrinsic_AVX2.c"
#include "Source/Lib/Common/ASM_SSE2/EbPictureOperators_Intrinsic_SSE2.c"
#include "Source/Lib/Common/ASM_SSE2/EbAvcStyleMcp_Intrinsic_SSE2.c"
#if KERNEL >= 6
#include "Source/Lib/Common/ASM_SSE2/EbPackUnPack_Intrinsic_SSE2.c"
#include "Source/Lib/Common/ASM_AVX2/EbPackUnPack_Intrinsic_AVX2.c"
#endif
#include "Source/Lib/Common/C_DEFAULT/EbPictureOperators_C.c"
#include "c07_cref.inc" /* svt_residual_kernel{8,16}bit_c sliced verbatim from Codec/EbPictureOperators.c */
#include "Source/Lib/Common/C_DEFAULT/EbPackUnPack_C.c"
#ifndef W
#define W 8
#endif
#ifndef H
#define H 2
#endif
#define S0 (W + 1)
#define S1 (W + 2)
#define SD (W + 3)
#if KERNEL == 1   /* residual 8-bit */
typedef uint8_t TA; typedef uint8_t TB; typedef int16_t TD;
#define RUN_C(a, b, d) svt_residual_kernel8bit_c(a, S0, b, S1, d, SD, W, H)
#define RUN_S(a, b, d) svt_residual_kernel8bit_avx2(a, S0, b, S1, d, SD, W, H)
#define AMAX 255
#elif KERNEL == 2 /* residual 16-bit (10-bit samples) */
typedef uint16_t TA; typedef uint16_t TB; typedef int16_t TD;
#define RUN_C(a, b, d) svt_residual_kernel16bit_c(a, S0, b, S1, d, SD, W, H)
#define RUN_S(a, b, d) svt_residual_kernel16bit_avx2(a, S0, b, S1, d, SD, W, H)
#define AMAX 65535
#elif KERNEL == 3 /* residual 16-bit sse2 */
typedef uint16_t TA; typedef uint16_t TB; typedef int16_t TD;
#define RUN_C(a, b, d) svt_residual_kernel16bit_c(a, S0, b, S1, d, SD, W, H)
#define RUN_S(a, b, d) svt_residual_kernel16bit_sse2_intrin(a, S0, b, S1, d, SD, W, H)
#define AMAX 65535
#elif KERNEL == 4 /* 8 -> 16 bit convert */
typedef uint8_t TA; typedef uint8_t TB; typedef uint16_t TD;
#define RUN_C(a, b, d) svt_convert_8bit_to_16bit_c(a, S0, d, SD, W, H)
#define RUN_S(a, b, d) svt_convert_8bit_to_16bit_avx2(a, S0, d, SD, W, H)
#define AMAX 255
#elif KERNEL == 5 /* picture average */
typedef uint8_t TA; typedef uint8_t TB; typedef uint8_t TD;
#define RUN_C(a, b, d) svt_picture_average_kernel_c(a, S0, b, S1, d, SD, W, H)
#define RUN_S(a, b, d) svt_picture_average_kernel_sse2_intrin(a, S0, b, S1, d, SD, W, H)
#define AMAX 255
#elif KERNEL == 6 /* unpack + average, AVX2 (16-bit containers of 10-bit samples -> 8-bit average of the 8 MSBs) */
typedef uint16_t TA; typedef uint16_t TB; typedef uint8_t TD;
#define RUN_C(a, b, d) svt_unpack_avg_c(a, S0, b, S1, d, SD, W, H)
#define RUN_S(a, b, d) svt_unpack_avg_avx2_intrin(a, S0, b, S1, d, SD, W, H)
#define AMAX 1023
#elif KERNEL == 7 /* unpack + average, SSE2 */
typedef uint16_t TA; typedef uint16_t TB; typedef uint8_t TD;
#define RUN_C(a, b, d) svt_unpack_avg_c(a, S0, b, S1, d, SD, W, H)
#define RUN_S(a, b, d) svt_unpack_avg_sse2_intrin(a, S0, b, S1, d, SD, W, H)
#define AMAX 1023
#elif KERNEL == 8 /* 16-bit -> 8 MSB unpack */
typedef uint16_t TA; typedef uint16_t TB; typedef uint8_t TD;
#define RUN_C(a, b, d) svt_un_pack8_bit_data_c(a, S0, d, SD, W, H)
#define RUN_S(a, b, d) svt_enc_un_pack8_bit_data_avx2_intrin(a, S0, d, SD, W, H)
#define AMAX 1023
#endif
void harness(void) {
    TA *a = (TA *)malloc(sizeof(TA) * S0 * H); TB *b = (TB *)malloc(sizeof(TB) * S1 * H);
    TD *d1 = (TD *)malloc(sizeof(TD) * SD * H), *d2 = (TD *)malloc(sizeof(TD) * SD * H);
    V_ASSUME(a && b && d1 && d2);
    for (uint32_t i = 0; i < S0 * H; i++) { a[i] = (TA)vin64(); V_ASSUME(a[i] <= AMAX); }
    for (uint32_t i = 0; i < S1 * H; i++) { b[i] = (TB)vin64(); V_ASSUME(b[i] <= AMAX); }
    for (uint32_t i = 0; i < SD * H; i++) { d1[i] = (TD)0x5A5A; d2[i] = (TD)0x5A5A; }
    RUN_C(a, b, d1);
    RUN_S(a, b, d2);
    for (uint32_t i = 0; i < SD * H; i++) V_ASSERT(d1[i] == d2[i], "SIMD kernel output (and untouched elements) identical to the C reference");
    V_END();
}
#ifndef VERIF_CBMC
int main(void) { harness(); puts("REPLAY-OK"); return 0; }
#endif
