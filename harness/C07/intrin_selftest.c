/* Validation of the symbolic semantics used for x86 intrinsics: every intrinsic that the C07 kernels use is
 * evaluated (a) by the real CPU in a gcc build (GEN mode, writes intrin_expected.inc) and (b) by CBMC's vector
 * semantics + models/ia32_models.h on the same concrete operand vectors; CBMC must prove the results equal. */
#include "verif.h"
#include "ia32_models.h"
#include <immintrin.h>
#define NK 6
typedef union { __m256i v; __m128i h[2]; uint8_t b[32]; } U256;
static void mk(U256 *a, U256 *b, int k) {
    uint32_t s = 12345u + 977u * (uint32_t)k;
    for (int i = 0; i < 32; i++) {
        s = s * 1103515245u + 12345u; a->b[i] = (uint8_t)(s >> 16);
        s = s * 1103515245u + 12345u; b->b[i] = (uint8_t)(s >> 16);
    }
    if (k == 0) for (int i = 0; i < 32; i++) { a->b[i] = 255; b->b[i] = (i & 1) ? 0 : 255; }
    if (k == 1) for (int i = 0; i < 32; i++) { a->b[i] = (i & 1) ? 0x80 : 0x00; b->b[i] = (i & 1) ? 0x7f : 0xff; }
    if (k == 2) for (int i = 0; i < 32; i++) { a->b[i] = (uint8_t)(i * 9); b->b[i] = (uint8_t)(255 - i * 7); }
}
#define TESTS(T256, T128) \
    T256(packus_epi16, _mm256_packus_epi16(a, b)) \
    T256(permute4x64_d8, _mm256_permute4x64_epi64(a, 0xd8)) \
    T256(permute4x64_4e, _mm256_permute4x64_epi64(a, 0x4e)) \
    T256(unpacklo_epi8, _mm256_unpacklo_epi8(a, b)) \
    T256(unpackhi_epi8, _mm256_unpackhi_epi8(a, b)) \
    T256(madd_epi16, _mm256_madd_epi16(a, b)) \
    T256(maddubs_epi16, _mm256_maddubs_epi16(a, b)) \
    T256(max_epu8, _mm256_max_epu8(a, b)) \
    T256(min_epu8, _mm256_min_epu8(a, b)) \
    T256(sub_epi8, _mm256_sub_epi8(a, b)) \
    T256(sub_epi16, _mm256_sub_epi16(a, b)) \
    T256(add_epi32, _mm256_add_epi32(a, b)) \
    T256(and_si256, _mm256_and_si256(a, b)) \
    T256(setzero, _mm256_setzero_si256()) \
    T256(setr_epi32, _mm256_and_si256(a, _mm256_setr_epi32(-1, -1, -1, -1, -1, -1, 0, 0))) \
    T256(slli_epi16_6_256, _mm256_slli_epi16(a, 6)) \
    T256(srli_epi16_2_256, _mm256_srli_epi16(a, 2)) \
    T256(srai_epi16_3_256, _mm256_srai_epi16(a, 3)) \
    T256(slli_epi32_5_256, _mm256_slli_epi32(a, 5)) \
    T256(srli_epi32_7_256, _mm256_srli_epi32(a, 7)) \
    T256(srai_epi32_9_256, _mm256_srai_epi32(a, 9)) \
    T256(unpacklo_epi16_256, _mm256_unpacklo_epi16(a, b)) \
    T256(unpackhi_epi16_256, _mm256_unpackhi_epi16(a, b)) \
    T256(packs_epi32_256, _mm256_packs_epi32(a, b)) \
    T256(packus_epi32_256, _mm256_packus_epi32(a, b)) \
    T256(adds_epi16_256, _mm256_adds_epi16(a, b)) \
    T256(subs_epi16_256, _mm256_subs_epi16(a, b)) \
    T256(or_si256, _mm256_or_si256(a, b)) \
    T256(set1_epi16_256, _mm256_and_si256(a, _mm256_set1_epi16(0x00FF))) \
    T256(shuffle_epi8_256, _mm256_shuffle_epi8(a, b)) \
    T256(shuffle_epi32_256, _mm256_shuffle_epi32(a, 0x4e)) \
    T256(shufflelo_epi16_256, _mm256_shufflelo_epi16(a, 0x1b)) \
    T256(shufflehi_epi16_256, _mm256_shufflehi_epi16(a, 0xb1)) \
    T256(abs_epi16_256, _mm256_abs_epi16(a)) \
    T256(abs_epi32_256, _mm256_abs_epi32(a)) \
    T256(andnot_si256, _mm256_andnot_si256(a, b)) \
    T256(broadcastw_epi16, _mm256_broadcastw_epi16(a128)) \
    T256(broadcastb_epi8, _mm256_broadcastb_epi8(a128)) \
    T256(broadcastd_epi32, _mm256_broadcastd_epi32(a128)) \
    T256(srli_si256_6, _mm256_srli_si256(a, 6)) \
    T256(slli_si256_3, _mm256_slli_si256(a, 3)) \
    T256(sad_epu8_256, _mm256_sad_epu8(a, b)) \
    T256(mulhi_epi16_256, _mm256_mulhi_epi16(a, b)) \
    T256(mulhi_epu16_256, _mm256_mulhi_epu16(a, b)) \
    T256(mullo_epi16_256, _mm256_mullo_epi16(a, b)) \
    T256(mullo_epi32_256, _mm256_mullo_epi32(a, b)) \
    T256(avg_epu16_256, _mm256_avg_epu16(a, b)) \
    T256(cmpgt_epi16_256, _mm256_cmpgt_epi16(a, b)) \
    T256(set1_epi32_256, _mm256_add_epi32(a, _mm256_set1_epi32(0x01020304))) \
    T256(cvtepi16_epi64, _mm256_cvtepi16_epi64(a128)) \
    T256(cvtepi16_epi32, _mm256_cvtepi16_epi32(a128)) \
    T256(cvtepu16_epi32, _mm256_cvtepu16_epi32(a128)) \
    T256(slli_epi64_256, _mm256_slli_epi64(a, 9)) \
    T256(srli_epi64_256, _mm256_srli_epi64(a, 33)) \
    T256(sign_epi16_256, _mm256_sign_epi16(a, b)) \
    T256(sign_epi16_256z, _mm256_sign_epi16(a, _mm256_and_si256(b, _mm256_set1_epi16(0x00f0)))) \
    T256(permute2x128_20, _mm256_permute2x128_si256(a, b, 0x20)) \
    T256(permute2x128_31, _mm256_permute2x128_si256(a, b, 0x31)) \
    T256(permute2x128_11, _mm256_permute2x128_si256(a, a, 0x11)) \
    T256(permute2x128_08, _mm256_permute2x128_si256(a, b, 0x08)) \
    T256(max_epi16_256, _mm256_max_epi16(a, b)) \
    T256(min_epi16_256, _mm256_min_epi16(a, b)) \
    T256(cmpeq_epi16_256, _mm256_cmpeq_epi16(a, _mm256_and_si256(a, b))) \
    T256(cvtepu8_epi16, _mm256_cvtepu8_epi16(a128)) \
    T256(setr_m128i, _mm256_setr_m128i(a128, b128)) \
    T256(loadu_storeu, ld_st_256(a)) \
    T128(cvtepu8_epi16_128, _mm_cvtepu8_epi16(a128)) \
    T128(avg_epu8, _mm_avg_epu8(a128, b128)) \
    T128(loadh_pd, _mm_castpd_si128(_mm_loadh_pd(_mm_castsi128_pd(a128), (const double *)(ub.b + 5)))) \
    T128(storeh_pd, st_h(a128)) \
    T128(insert_epi32_1, _mm_insert_epi32(a128, 0x12345678, 1)) \
    T128(insert_epi32_3, _mm_insert_epi32(a128, -7, 3)) \
    T128(slli_epi16_6, _mm_slli_epi16(a128, 6)) \
    T128(srli_epi16_2, _mm_srli_epi16(a128, 2)) \
    T128(srai_epi16_3, _mm_srai_epi16(a128, 3)) \
    T128(slli_epi32_5, _mm_slli_epi32(a128, 5)) \
    T128(srli_epi32_7, _mm_srli_epi32(a128, 7)) \
    T128(srai_epi32_9, _mm_srai_epi32(a128, 9)) \
    T128(unpacklo_epi8_128, _mm_unpacklo_epi8(a128, b128)) \
    T128(unpackhi_epi8_128, _mm_unpackhi_epi8(a128, b128)) \
    T128(unpacklo_epi16_128, _mm_unpacklo_epi16(a128, b128)) \
    T128(unpackhi_epi16_128, _mm_unpackhi_epi16(a128, b128)) \
    T128(unpacklo_epi32_128, _mm_unpacklo_epi32(a128, b128)) \
    T128(unpackhi_epi32_128, _mm_unpackhi_epi32(a128, b128)) \
    T128(unpacklo_epi64_128, _mm_unpacklo_epi64(a128, b128)) \
    T128(unpackhi_epi64_128, _mm_unpackhi_epi64(a128, b128)) \
    T128(packus_epi16_128, _mm_packus_epi16(a128, b128)) \
    T128(packs_epi16_128, _mm_packs_epi16(a128, b128)) \
    T128(packs_epi32_128, _mm_packs_epi32(a128, b128)) \
    T128(packus_epi32_128, _mm_packus_epi32(a128, b128)) \
    T128(adds_epi16_128, _mm_adds_epi16(a128, b128)) \
    T128(subs_epi16_128, _mm_subs_epi16(a128, b128)) \
    T128(subs_epu8_128, _mm_subs_epu8(a128, b128)) \
    T128(adds_epu8_128, _mm_adds_epu8(a128, b128)) \
    T128(and_si128, _mm_and_si128(a128, b128)) \
    T128(or_si128, _mm_or_si128(a128, b128)) \
    T128(set1_epi16, _mm_and_si128(a128, _mm_set1_epi16(0x00FF))) \
    T128(storeu_si128, ld_st_128(a128)) \
    T128(extractf128_1, _mm256_extractf128_si256(a, 1)) \
    T128(extractf128_0, _mm256_extractf128_si256(a, 0)) \
    T128(shuffle_epi8_128, _mm_shuffle_epi8(a128, b128)) \
    T128(shuffle_epi32_1b, _mm_shuffle_epi32(a128, 0x1b)) \
    T128(shufflelo_epi16_55, _mm_shufflelo_epi16(a128, 0x55)) \
    T128(shufflehi_epi16_e4, _mm_shufflehi_epi16(a128, 0x27)) \
    T128(abs_epi16_128, _mm_abs_epi16(a128)) \
    T128(abs_epi8_128, _mm_abs_epi8(a128)) \
    T128(abs_epi32_128, _mm_abs_epi32(a128)) \
    T128(andnot_si128, _mm_andnot_si128(a128, b128)) \
    T128(sad_epu8_128, _mm_sad_epu8(a128, b128)) \
    T128(mulhi_epi16_128, _mm_mulhi_epi16(a128, b128)) \
    T128(mulhi_epu16_128, _mm_mulhi_epu16(a128, b128)) \
    T128(mullo_epi16_128, _mm_mullo_epi16(a128, b128)) \
    T128(maddubs_epi16_128, _mm_maddubs_epi16(a128, b128)) \
    T128(avg_epu16_128, _mm_avg_epu16(a128, b128)) \
    T128(cmpgt_epi16_128, _mm_cmpgt_epi16(a128, b128)) \
    T128(cmpeq_epi16_128, _mm_cmpeq_epi16(a128, b128)) \
    T128(broadcastw_128, _mm_broadcastw_epi16(a128)) \
    T128(set1_epi8, _mm_add_epi8(a128, _mm_set1_epi8((char)0x81))) \
    T128(lddqu_si128, _mm_lddqu_si128((const __m128i *)(ub.b + 7))) \
    T128(cvtepu16_epi32_128, _mm_cvtepu16_epi32(a128)) \
    T128(slli_epi64_128, _mm_slli_epi64(a128, 13)) \
    T128(srli_epi64_128, _mm_srli_epi64(a128, 21)) \
    T128(movemask_epi8_128, _mm_cvtsi32_si128(_mm_movemask_epi8(a128))) \
    T128(movemask_epi8_256, _mm_cvtsi32_si128(_mm256_movemask_epi8(a))) \
    T128(sign_epi16_128, _mm_sign_epi16(a128, b128)) \
    T128(max_epi16_128, _mm_max_epi16(a128, b128)) \
    T128(min_epi16_128, _mm_min_epi16(a128, b128)) \
    T128(subs_epu16_128, _mm_subs_epu16(a128, b128)) \
    T128(minpos_epu16, _mm_minpos_epu16(a128)) \
    T128(extract_epi16_0, _mm_cvtsi32_si128(_mm_extract_epi16(a128, 0))) \
    T128(extract_epi16_5, _mm_cvtsi32_si128(_mm_extract_epi16(a128, 5))) \
    T128(extracti128_0, _mm256_extracti128_si256(a, 0)) \
    T128(extracti128_1, _mm256_extracti128_si256(a, 1)) \
    T128(castsi256_si128, _mm256_castsi256_si128(a)) \
    T128(madd_epi16_128, _mm_madd_epi16(a128, b128)) \
    T128(add_epi32_128, _mm_add_epi32(a128, b128)) \
    T128(srli_si128_4, _mm_srli_si128(a128, 4)) \
    T128(srli_si128_8, _mm_srli_si128(a128, 8)) \
    T128(loadl_epi64, _mm_loadl_epi64((const __m128i *)ua.b)) \
    T128(storel_epi64, ld_stl_128(a128)) \
    T128(loadu_si128, _mm_loadu_si128((const __m128i *)(ua.b + 3))) \
    T128(cvtsi32_si128, _mm_cvtsi32_si128(*(const int *)(ua.b + 4))) \
    T128(cvtsi128_si32, _mm_cvtsi32_si128(_mm_cvtsi128_si32(a128)))
static __m128i ld_stl_128(__m128i a) { uint8_t buf[24] = {0}; _mm_storel_epi64((__m128i *)(buf + 3), a); return _mm_loadu_si128((const __m128i *)(buf + 3)); }
static __m128i st_h(__m128i a) { uint8_t buf[24] = {0}; _mm_storeh_pd((double *)(buf + 1), _mm_castsi128_pd(a)); _mm_storel_pd((double *)(buf + 9), _mm_castsi128_pd(a)); return _mm_loadu_si128((const __m128i *)(buf + 1)); }
static __m128i ld_st_128(__m128i a) { uint8_t buf[24]; _mm_storeu_si128((__m128i *)(buf + 3), a); return _mm_loadu_si128((const __m128i *)(buf + 3)); }
static __m256i ld_st_256(__m256i a) { uint8_t buf[40]; _mm256_storeu_si256((__m256i *)(buf + 5), a); return _mm256_loadu_si256((const __m256i *)(buf + 5)); }
#ifdef GEN
int main(void) {
    for (int k = 0; k < NK; k++) {
        U256 ua, ub, r; mk(&ua, &ub, k);
        __m256i a = ua.v, b = ub.v; __m128i a128 = ua.h[0], b128 = ub.h[1];
#define P(n) do { printf("{"); for (int i = 0; i < n; i++) printf("%u,", r.b[i]); printf("},\n"); } while (0)
#define G256(name, e) memset(&r, 0, sizeof r); r.v = (e); P(32);
#define G128(name, e) memset(&r, 0, sizeof r); r.h[0] = (e); P(32);
        TESTS(G256, G128)
    }
    return 0;
}
#else
static const uint8_t EXPECT[][32] = {
#include "intrin_expected.inc"
};
void harness(void) {
    int row = 0;
    for (int k = 0; k < NK; k++) {
        U256 ua, ub, r; mk(&ua, &ub, k);
        __m256i a = ua.v, b = ub.v; __m128i a128 = ua.h[0], b128 = ub.h[1];
#define C256(name, e) memset(&r, 0, sizeof r); r.v = (e); for (int i = 0; i < 32; i++) V_ASSERT(r.b[i] == EXPECT[row][i], "intrinsic " #name " symbolic semantics == CPU"); row++;
#define C128(name, e) memset(&r, 0, sizeof r); r.h[0] = (e); for (int i = 0; i < 16; i++) V_ASSERT(r.b[i] == EXPECT[row][i], "intrinsic " #name " symbolic semantics == CPU"); row++;
        TESTS(C256, C128)
    }
    V_END();
}
#endif
