/* C07: svt_convert_16bit_to_8bit_avx2 == svt_convert_16bit_to_8bit_c on the kernel's domain
 * (16-bit containers holding 8-bit samples), exact-size heap buffers, one concrete (W,H,strides) per query. */
#include "verif.h"
#include "ia32_models.h"
#include "Source/Lib/Common/ASM_AVX2/EbPictureOperators_Intrinsic_AVX2.c"
#include "Source/Lib/Common/C_DEFAULT/EbPackUnPack_C.c"
#ifndef W
#define W 40
#endif
#ifndef H
#define H 2
#endif
#ifndef SS
#define SS (W + 1)
#endif
#ifndef DS
#define DS (W + 2)
#endif
void harness(void) {
    const uint32_t w = W, h = H, ss = SS, ds = DS;
    uint16_t *src = (uint16_t *)malloc(sizeof(uint16_t) * ss * h); uint8_t *d1 = (uint8_t *)malloc(ds * h), *d2 = (uint8_t *)malloc(ds * h);
    V_ASSUME(src && d1 && d2);
    for (uint32_t i = 0; i < (W + 3) * H; i++) if (i < ss * h) { src[i] = vin16(); V_ASSUME(src[i] <= 255); }
    for (uint32_t i = 0; i < (W + 3) * H; i++) if (i < ds * h) { d1[i] = 0xAB; d2[i] = 0xAB; }
    svt_convert_16bit_to_8bit_c(src, ss, d1, ds, w, h);
    svt_convert_16bit_to_8bit_avx2(src, ss, d2, ds, w, h);
    for (uint32_t i = 0; i < (W + 3) * H; i++) if (i < ds * h) V_ASSERT(d1[i] == d2[i], "AVX2 kernel output (and untouched bytes) identical to the C reference");
    V_END();
}
#ifndef VERIF_CBMC
int main(void) { harness(); puts("REPLAY-OK"); return 0; }
#endif
