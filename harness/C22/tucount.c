/* C22: circular reorder queue of the packetization stage.  count_frames_in_next_tu / get_reorder_queue_entry
 * (sliced by name) with the queue-depth macro scaled from 2048 to 8 (the code is parametric in it): for every
 * head position and every occupancy pattern the number of frames of the next temporal unit is computed
 * modulo the queue depth. */
#include "verif.h"
#include "EbDefinitions.h"
#include "EbSequenceControlSet.h"
#include "EbPictureControlSet.h"
#include "EbPacketizationReorderQueue.h"
#include "EbEncodeContext.h"
#undef PACKETIZATION_REORDER_QUEUE_MAX_DEPTH
#define PACKETIZATION_REORDER_QUEUE_MAX_DEPTH 8
#include "c22_tu.inc"
void harness(void) {
    static EncodeContext ectx; static PacketizationReorderEntry e[8]; static PacketizationReorderEntry *qarr[8]; static EbObjectWrapper w[8]; static EbBufferHeaderType o[8];
    ectx.packetization_reorder_queue = qarr;
    int head = (int)vin_range(0, 7); ectx.packetization_reorder_queue_head_index = (uint32_t)head;
    int present[8], shown[8];
    for (int i = 0; i < 8; i++) { qarr[i] = &e[i]; w[i].object_ptr = &o[i]; present[i] = vinbool(); shown[i] = vinbool(); o[i].n_filled_len = (uint32_t)vin_range(0, 1000);
        e[i].output_stream_wrapper_ptr = present[i] ? &w[i] : NULL; e[i].show_frame = (EbBool)shown[i]; }
    uint32_t size = 0; uint32_t got = count_frames_in_next_tu(&ectx, &size);
    /* specification: walk from the head, wrapping modulo the depth */
    uint32_t want = 0, wsize = 0; int decided = 0;
    for (int i = 0; i < 8 && !decided; i++) { int s = (head + i) % 8; if (!present[s]) { want = 0; decided = 1; } else { wsize += o[s].n_filled_len; if (shown[s]) { want = (uint32_t)i + 1; decided = 1; } } }
    if (!decided) want = 8;
    V_ASSERT(got == want, "frames of the next temporal unit counted across the queue wrap (hidden frames up to and including the first shown one, 0 while one is missing)");
    if (want) V_ASSERT(size == wsize, "temporal unit size is the sum of its frames");
    V_END();
}
#ifndef VERIF_CBMC
int main(void) { harness(); puts("REPLAY-OK"); return 0; }
#endif
