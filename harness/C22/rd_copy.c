/* C22: every order-hint distance helper returns the signed distance modulo 2^bits.
 * One TU per copy (COPY=1..5) because the static copies share a name. */
#include "verif.h"
#if COPY == 1
#include "Source/Lib/Common/Codec/EbInterPrediction.c"
static int rd(int bits, int en, int a, int b) {
    SeqHeader sh; memset(&sh, 0, sizeof sh);
    sh.order_hint_info.enable_order_hint = en; sh.order_hint_info.order_hint_bits = bits;
    return get_relative_dist_enc(&sh, a, b);
}
#elif COPY == 2
#include "Source/Lib/Encoder/Codec/EbAdaptiveMotionVectorPrediction.c"
#elif COPY == 3
#include "Source/Lib/Encoder/Codec/EbPictureDecisionProcess.c"
#elif COPY == 4
#include "Source/Lib/Encoder/Codec/EbModeDecisionConfigurationProcess.c"
#elif COPY == 5
#include "Source/Lib/Decoder/Codec/EbDecUtils.c"
#endif
#if COPY != 1
static int rd(int bits, int en, int a, int b) {
    OrderHintInfo oh; memset(&oh, 0, sizeof oh);
    oh.enable_order_hint = en; oh.order_hint_bits = bits;
    return get_relative_dist(&oh, a, b);
}
#endif

void harness(void) {
    int bits = (int)vin_range(1, 8);
    int a = (int)vin_range(0, 255), b = (int)vin_range(0, 255);
    int en = vinbool();
    V_ASSUME(a < (1 << bits) && b < (1 << bits));
    int d = rd(bits, en, a, b);
    if (!en) {
        V_ASSERT(d == 0, "order hints disabled: distance 0");
    } else {
        int M = 1 << bits;
        V_ASSERT(d >= -(M / 2) && d < M / 2, "distance in [-2^(bits-1), 2^(bits-1))");
        V_ASSERT((((a - b) - d) & (M - 1)) == 0, "distance congruent to a-b modulo 2^bits");
    }
    V_END();
}
#ifndef VERIF_CBMC
int main(void) { harness(); puts("REPLAY-OK"); return 0; }
#endif
