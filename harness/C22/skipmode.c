/* C22: order-hint wrap-around in the users of the distance helper.  svt_av1_setup_skip_mode_allowed
 * (EbPictureDecisionProcess.c, sliced by name together with its get_relative_dist) must depend only on the
 * DISTANCES between the current picture and its references: shifting every picture number by the same
 * amount -- in particular across the 2^7 order-hint period -- must not change the selected reference pair. */
#include "verif.h"
#include "EbDefinitions.h"
#include "EbSequenceControlSet.h"
#include "EbPictureControlSet.h"
#include "EbPictureDecisionProcess.h"
#include <limits.h>
#include "c22_skip.inc"
static void setup(PictureParentControlSet *p, SequenceControlSet *scs, uint64_t n, const int *d, int islice, int refmode) {
    p->scs_ptr = scs; p->picture_number = n; p->slice_type = islice ? I_SLICE : B_SLICE; p->frm_hdr.reference_mode = (ReferenceMode)refmode;
    for (int i = 0; i < 7; i++) p->av1_ref_signal.ref_poc_array[i] = n + (uint64_t)(int64_t)d[i];
}
void harness(void) {
    SequenceControlSet *scs = (SequenceControlSet *)malloc(sizeof *scs);
    PictureParentControlSet *a = (PictureParentControlSet *)malloc(sizeof *a), *b = (PictureParentControlSet *)malloc(sizeof *b);
    V_ASSUME(scs && a && b);
    scs->seq_header.order_hint_info.order_hint_bits = 7; scs->seq_header.order_hint_info.enable_order_hint = 1;
    int d[7]; for (int i = 0; i < 7; i++) d[i] = (int)vin_range(-63, 63);
    uint64_t n = 64 + (vin64() & 0xffffff), shift = vin64() & 0xffff;     /* any stream position, any common shift (wraps included) */
    int islice = vinbool(), refmode = (int)vin_range(0, 1);
    setup(a, scs, n, d, islice, refmode); setup(b, scs, n + shift, d, islice, refmode);
    svt_av1_setup_skip_mode_allowed(a); svt_av1_setup_skip_mode_allowed(b);
    V_ASSERT(a->frm_hdr.skip_mode_params.skip_mode_allowed == b->frm_hdr.skip_mode_params.skip_mode_allowed, "skip-mode availability depends only on reference distances, not on the position in the order-hint period");
    V_ASSERT(a->frm_hdr.skip_mode_params.ref_frame_idx_0 == b->frm_hdr.skip_mode_params.ref_frame_idx_0 && a->frm_hdr.skip_mode_params.ref_frame_idx_1 == b->frm_hdr.skip_mode_params.ref_frame_idx_1,
             "skip-mode reference pair depends only on reference distances, not on the position in the order-hint period");
    V_END();
}
#ifndef VERIF_CBMC
int main(void) { harness(); puts("REPLAY-OK"); return 0; }
#endif
