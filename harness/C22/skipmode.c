/* C22: order-hint wrap-around in the users of the distance helper.  svt_av1_setup_skip_mode_allowed
 * (EbPictureDecisionProcess.c, sliced by name together with its get_relative_dist) must depend only on the
 * DISTANCES between the current picture and its references: shifting every picture number by the same
 * amount -- in particular across the 2^7 order-hint period -- must not change the selected reference pair. */
#include "verif.h"
#include "EbDefinitions.h"
#include "EbSequenceControlSet.h"
#include "EbPictureControlSet.h"
#include "EbPictureDecisionProcess.h"
#include <limits.h>
#include "c22_skip.inc"
static void setup(PictureParentControlSet *p, SequenceControlSet *scs, uint64_t n, const int *d, int islice, int refmode) {
    p->scs_ptr = scs; p->picture_number = n; p->slice_type = islice ? I_SLICE : B_SLICE; p->frm_hdr.reference_mode = (ReferenceMode)refmode;
    for (int i = 0; i < 7; i++) p->av1_ref_signal.ref_poc_array[i] = n + (uint64_t)(int64_t)d[i];
}
void harness(void) {
    SequenceControlSet *scs = (SequenceControlSet *)malloc(sizeof *scs);
    PictureParentControlSet *a = (PictureParentControlSet *)malloc(sizeof *a);
    V_ASSUME(scs && a);
    scs->seq_header.order_hint_info.order_hint_bits = 7; scs->seq_header.order_hint_info.enable_order_hint = 1;
    int d[7]; for (int i = 0; i < 7; i++) d[i] = (int)vin_range(-63, 63);
    uint64_t n = 64 + (vin64() & 0x1ff);     /* every residue of the 2^7 order-hint period, several periods */
    int islice = vinbool(), refmode = (int)vin_range(0, 1);
    setup(a, scs, n, d, islice, refmode);
    svt_av1_setup_skip_mode_allowed(a);
    /* AV1 specification 7.9.? (skip mode frame selection) evaluated on the TRUE signed distances d[i] */
    int fwd = -1, bwd = -1, fd = 0, bd = 0;
    for (int i = 0; i < 7; i++) {
        if (d[i] < 0) { if (fwd < 0 || d[i] > fd) { fwd = i; fd = d[i]; } }
        else if (d[i] > 0) { if (bwd < 0 || d[i] < bd) { bwd = i; bd = d[i]; } }
    }
    int allowed = 0, i0 = -1, i1 = -1;
    if (!islice && refmode != SINGLE_REFERENCE) {
        if (fwd >= 0 && bwd >= 0) { allowed = 1; i0 = fwd < bwd ? fwd : bwd; i1 = fwd < bwd ? bwd : fwd; }
        else if (fwd >= 0) {
            int sec = -1, sd = 0;
            for (int i = 0; i < 7; i++) if (d[i] < fd) { if (sec < 0 || d[i] > sd) { sec = i; sd = d[i]; } }
            if (sec >= 0) { allowed = 1; i0 = fwd < sec ? fwd : sec; i1 = fwd < sec ? sec : fwd; }
        }
    }
    V_ASSERT(a->frm_hdr.skip_mode_params.skip_mode_allowed == allowed, "skip mode allowed exactly when the true reference distances provide the required pair (at every position of the order-hint period)");
    if (allowed) V_ASSERT(a->frm_hdr.skip_mode_params.ref_frame_idx_0 == i0 && a->frm_hdr.skip_mode_params.ref_frame_idx_1 == i1, "skip-mode reference pair = nearest references by true distance, independent of order-hint wrap");
    V_END();
}
#ifndef VERIF_CBMC
int main(void) { harness(); puts("REPLAY-OK"); return 0; }
#endif
