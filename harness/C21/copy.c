/* C21: the deep copy of the caller's picture (copy_frame_buffer, EbEncHandle.c) followed by the
 * padding regeneration of picture analysis (pad_input_pictures -> pad_picture_to_multiple_of_min_blk_size_dimensions,
 * generate_padding) as a 2-safety property: two callers' pictures that agree on the visible samples but
 * differ in stride and in every byte outside the visible area end in byte-identical library pictures.
 * CBMC's bounds/pointer checks are the oracle for "no access outside either buffer". */
#include "verif.h"
#include "common/enc_handle.h"
#include "Source/Lib/Common/Codec/EbPictureOperators.c"
#include "Source/Lib/Common/Codec/EbPictureBufferDesc.c"
#include "Source/Lib/Common/C_DEFAULT/EbPackUnPack_C.c"
#include "c21_pad.inc"     /* pad_input_pictures + pad_picture_to_multiple_of_min_blk_size_dimensions sliced from EbPictureAnalysisProcess.c */
void svt_print_alloc_fail(const char *f, int l) { (void)f; (void)l; }
static void v_memcpy(void *d, const void *s, size_t n) { memcpy(d, s, n); }
void (*svt_memcpy)(void *, const void *, size_t) = v_memcpy;
#ifndef VW
#define VW 10      /* visible width  (not a multiple of 8 -> pad_right 6) */
#endif
#ifndef VH
#define VH 6       /* visible height (-> pad_bottom 2) */
#endif
#ifndef BITS
#define BITS 8
#endif
#define PADW (((VW) + 7) & ~7)
#define PADH (((VH) + 7) & ~7)
#define MARGIN 4
#define MAXEXTRA 8
static SequenceControlSet scs;

static EbPictureBufferDesc *mk_dst(void) {
    EbPictureBufferDescInitData d; memset(&d, 0, sizeof d);
    d.max_width = PADW; d.max_height = PADH; d.bit_depth = BITS == 8 ? EB_8BIT : EB_10BIT; d.color_format = EB_YUV420;
    d.buffer_enable_mask = PICTURE_BUFFER_DESC_FULL_MASK; d.left_padding = d.right_padding = d.top_padding = d.bot_padding = MARGIN;
    d.split_mode = BITS == 8 ? EB_FALSE : EB_TRUE; d.is_16bit_pipeline = 0;
    EbPictureBufferDesc *p = (EbPictureBufferDesc *)calloc(1, sizeof(*p)); V_ASSUME(p != NULL);
    EbErrorType e = svt_picture_buffer_desc_ctor(p, &d); V_ASSUME(e == EB_ErrorNone);
    return p;
}
typedef struct Src { EbSvtIOFormat io; uint32_t sy, scb, scr; } Src;
#define BPS (BITS == 8 ? 1 : 2)
static uint8_t vis_y[VH][VW * 2], vis_cb[VH / 2][VW], vis_cr[VH / 2][VW];   /* the visible samples (bytes) shared by both callers */
#ifndef EXB_Y
#define EXB_Y 5
#define EXB_CB 3
#define EXB_CR 1
#endif
/* strides are concrete per query (caller A: tight; caller B: width + EXB_*): symbolic strides turn every row copy
   into a symbolic-length memcpy at a symbolic offset; every byte of both callers' planes stays symbolic */
static void mk_src(Src *s, int second) {
    s->sy = VW + (second ? EXB_Y : 0); s->scb = VW / 2 + (second ? EXB_CB : 0); s->scr = VW / 2 + (second ? EXB_CR : 0);
    s->io.y_stride = s->sy; s->io.cb_stride = s->scb; s->io.cr_stride = s->scr;
    s->io.width = VW; s->io.height = VH; s->io.color_fmt = EB_YUV420; s->io.bit_depth = BITS == 8 ? EB_8BIT : EB_10BIT;
    size_t ny = (size_t)s->sy * VH * BPS, ncb = (size_t)s->scb * (VH / 2) * BPS, ncr = (size_t)s->scr * (VH / 2) * BPS;
    s->io.luma = (uint8_t *)malloc(ny); s->io.cb = (uint8_t *)malloc(ncb); s->io.cr = (uint8_t *)malloc(ncr);
    V_ASSUME(s->io.luma && s->io.cb && s->io.cr);
    /* every byte arbitrary, then the visible samples forced to the shared values */
    for (size_t i = 0; i < (size_t)(VW + MAXEXTRA) * VH * BPS; i++) if (i < ny) s->io.luma[i] = vin8();
    for (size_t i = 0; i < (size_t)(VW / 2 + MAXEXTRA) * (VH / 2) * BPS; i++) { if (i < ncb) s->io.cb[i] = vin8(); if (i < ncr) s->io.cr[i] = vin8(); }
    for (int y = 0; y < VH; y++) for (int x = 0; x < VW * BPS; x++) s->io.luma[(size_t)y * s->sy * BPS + x] = vis_y[y][x];
    for (int y = 0; y < VH / 2; y++) for (int x = 0; x < (VW / 2) * BPS; x++) { s->io.cb[(size_t)y * s->scb * BPS + x] = vis_cb[y][x]; s->io.cr[(size_t)y * s->scr * BPS + x] = vis_cr[y][x]; }
}
static void same(const uint8_t *a, const uint8_t *b, size_t n, const char *what) {
    (void)what;
    for (size_t i = 0; i < n; i++) V_ASSERT(a[i] == b[i], "library copy of the picture (visible area and regenerated padding) independent of caller stride and padding bytes");
}
void harness(void) {
    scs.static_config.encoder_bit_depth = BITS; scs.static_config.compressed_ten_bit_format = 0;
    scs.max_input_luma_width = PADW; scs.max_input_luma_height = PADH;
    scs.max_input_pad_right = PADW - VW; scs.max_input_pad_bottom = PADH - VH; scs.pad_right = PADW - VW; scs.pad_bottom = PADH - VH;
    scs.left_padding = scs.right_padding = scs.top_padding = scs.bot_padding = MARGIN; scs.subsampling_x = 1; scs.subsampling_y = 1;
    for (int y = 0; y < VH; y++) for (int x = 0; x < VW * BPS; x++) vis_y[y][x] = vin8();
    for (int y = 0; y < VH / 2; y++) for (int x = 0; x < (VW / 2) * BPS; x++) { vis_cb[y][x] = vin8(); vis_cr[y][x] = vin8(); }
    Src a, b; mk_src(&a, 0); mk_src(&b, 1);
    EbPictureBufferDesc *da = mk_dst(), *db = mk_dst();
    copy_frame_buffer(&scs, (uint8_t *)da, (uint8_t *)&a.io);
    copy_frame_buffer(&scs, (uint8_t *)db, (uint8_t *)&b.io);
    /* the caller may now scribble over / free its memory */
    free(a.io.luma); free(a.io.cb); free(a.io.cr); free(b.io.luma); free(b.io.cb); free(b.io.cr);
    pad_input_pictures(&scs, da);
    pad_input_pictures(&scs, db);
#if BITS == 8
    /* functional part: the visible samples arrive where the encoder reads them */
    for (int y = 0; y < VH; y++) for (int x = 0; x < VW; x++)
        V_ASSERT(da->buffer_y[(MARGIN + y) * da->stride_y + MARGIN + x] == vis_y[y][x], "every visible luma sample of the submitted picture is in the library's copy");
    for (int y = 0; y < VH / 2; y++) for (int x = 0; x < VW / 2; x++) {
        V_ASSERT(da->buffer_cb[(MARGIN / 2 + y) * da->stride_cb + MARGIN / 2 + x] == vis_cb[y][x], "every visible Cb sample of the submitted picture is in the library's copy");
        V_ASSERT(da->buffer_cr[(MARGIN / 2 + y) * da->stride_cr + MARGIN / 2 + x] == vis_cr[y][x], "every visible Cr sample of the submitted picture is in the library's copy"); }
#endif
    same(da->buffer_y, db->buffer_y, da->luma_size, "luma");
    same(da->buffer_cb, db->buffer_cb, da->chroma_size, "cb");
    same(da->buffer_cr, db->buffer_cr, da->chroma_size, "cr");
#if BITS != 8
    same(da->buffer_bit_inc_y, db->buffer_bit_inc_y, da->luma_size, "luma lsb");
    same(da->buffer_bit_inc_cb, db->buffer_bit_inc_cb, da->chroma_size, "cb lsb");
    same(da->buffer_bit_inc_cr, db->buffer_bit_inc_cr, da->chroma_size, "cr lsb");
#endif
    V_END();
}
#ifndef VERIF_CBMC
int main(void) { harness(); puts("REPLAY-OK"); return 0; }
#endif
