/* C11 (leaf level): the first-pass statistics ring.  The tail of update_firstpass_stats (firstpass.c) that
 * advances the write pointer is sliced verbatim; inductive step: a write pointer inside the ring stays inside. */
#include "verif.h"
#include "EbDefinitions.h"
#include "EbSequenceControlSet.h"
#include "EbPictureControlSet.h"
#include "firstpass.h"
#include "c11_ring.inc"
void harness(void) {
    SequenceControlSet *scs = (SequenceControlSet *)malloc(sizeof *scs); V_ASSUME(scs != NULL);
    static STATS_BUFFER_CTX ctx; static FIRSTPASS_STATS ring[8];
    uint32_t size = (uint32_t)vin_range(1, 8), pos = (uint32_t)vin_range(0, 7);
    V_ASSUME(pos < size);
    ctx.stats_in_start = ring; ctx.stats_in_buf_end = ring + size; ctx.stats_in_end = ring + pos; ctx.total_stats = NULL;
    scs->twopass.stats_buf_ctx = &ctx;
    scs->static_config.rc_firstpass_stats_out = EB_TRUE;       /* first pass of a two-pass encode: circular use */
    advance_stats_ring(scs, &scs->twopass);
    V_ASSERT(ctx.stats_in_end >= ring && ctx.stats_in_end < ring + size, "the statistics write pointer stays inside the ring (next write in bounds)");
    V_ASSERT(ctx.stats_in_end == ring + (pos + 1) % size, "the ring advances by one entry modulo its size");
    V_END();
}
#ifndef VERIF_CBMC
int main(void) { harness(); puts("REPLAY-OK"); return 0; }
#endif
