/* C11 (leaf level): picture-size dependent geometry of the encoder for EVERY accepted picture size.
 * Real set_param_based_on_input (EbEncHandle.c) after real copy_api_from_app + verify_settings. */
#include "verif.h"
#include "common/enc_handle.h"
EbErrorType derive_input_resolution(EbInputResolution *r, uint32_t sz) { (void)sz; *r = (EbInputResolution)vin_range(0, 6); return EB_ErrorNone; }
void harness(void) {
    SequenceControlSet *scs = (SequenceControlSet *)malloc(sizeof *scs); V_ASSUME(scs != NULL);
    EbSvtAv1EncConfiguration c; svt_svt_enc_init_parameter(&c);
    c.source_width = vin32(); c.source_height = vin32(); c.enc_mode = (int8_t)vin_range(0, 8); c.encoder_bit_depth = vinbool() ? 10 : 8;
    set_default_configuration_parameters(scs);
    copy_api_from_app(scs, &c);
    V_ASSUME(verify_settings(scs) == EB_ErrorNone);      /* every ACCEPTED size */
    uint32_t w = c.source_width, h = c.source_height;
    scs->subsampling_x = 1; scs->subsampling_y = 1;
    set_param_based_on_input(scs);
    V_ASSERT(scs->max_input_pad_right < 8 && scs->max_input_pad_bottom < 8, "padding to the minimum block size is less than one block");
    V_ASSERT(scs->max_input_luma_width == w + scs->max_input_pad_right && scs->max_input_luma_height == h + scs->max_input_pad_bottom, "padded size = submitted size + padding (no 16-bit wrap)");
    V_ASSERT(scs->max_input_luma_width % 8 == 0 && scs->max_input_luma_height % 8 == 0, "padded size is a multiple of the minimum block size");
    V_ASSERT(scs->max_input_chroma_width == scs->max_input_luma_width / 2 && scs->max_input_chroma_height == scs->max_input_luma_height / 2, "chroma size is half the padded luma size");
    V_ASSERT(scs->seq_header.max_frame_width == scs->max_input_luma_width && scs->seq_header.max_frame_height == scs->max_input_luma_height, "sequence header carries the padded size");
    V_ASSERT(scs->static_config.super_block_size == 64 || scs->static_config.super_block_size == 128, "superblock size is 64 or 128");
    V_ASSERT(scs->left_padding >= 64 && scs->right_padding >= 64 && scs->top_padding >= 64 && scs->bot_padding >= scs->static_config.super_block_size, "picture margins at least one superblock");
    /* per-picture bitstream buffer sizing macro is monotone in the picture area and never zero */
    uint32_t area = (uint32_t)scs->max_input_luma_width * scs->max_input_luma_height;
    V_ASSERT(EB_OUTPUTSTREAMBUFFERSIZE_MACRO(area) >= 0x1E8480, "per-picture bitstream buffer at least 2 MB");
    V_END();
}
#ifndef VERIF_CBMC
int main(void) { harness(); puts("REPLAY-OK"); return 0; }
#endif
