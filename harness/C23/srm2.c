/* C23 (v2): the real EbSystemResourceManager.c under an explicit step scheduler.
 * The two blocking calls (svt_get_empty_object, svt_get_full_object) are split VERBATIM at their
 * svt_block_on_semaphore() line into a "register" half and a "take" half (c23_split.inc); a thread that has
 * registered may take only when its fifo's semaphore count is positive (that is the semaphore wait).
 * All other API calls are single critical sections and run as one step.  The scheduler picks, K times, any
 * enabled step of any thread (solver variable): every interleaving at blocking-point granularity. */
#include "verif.h"
#ifndef NOBJ
#define NOBJ 1
#endif
#ifndef NCONS
#define NCONS 2
#endif
#ifndef K
#define K 7
#endif
#define V_SYNC_POOL 14
struct VSync; static void pub_monitor(int why, struct VSync *o);
#define V_YIELD(why, obj) pub_monitor(why, obj)
#define V_SEM_BLOCKED(s) do { V_ASSERT(0, "semaphore wait entered although the scheduler saw a positive count"); V_ASSUME(0); } while (0)
#include "common/threads_model.h"
#include "EbObject.h"
#include "common/dctor_dispatch_srm.h"
#include "Source/Lib/Common/Codec/EbSystemResourceManager.c"
#include "c23_split.inc"   /* get_empty_A/B, get_full_A/B */
void svt_print_alloc_fail(const char *f, int l) { (void)f; (void)l; }
typedef struct Payload { EbDctor dctor; int seq; } Payload;
static EbErrorType payload_creator(EbPtr *obj, EbPtr init) { (void)init; Payload *p = (Payload *)calloc(1, sizeof(Payload)); V_ASSUME(p != NULL); *obj = p; return EB_ErrorNone; }

static EbSystemResource *R;
enum { ST_EMPTY, ST_PROD, ST_FULL, ST_CONS };
static int obj_state[NOBJ], obj_need[NOBJ];
static int next_seq, exp_seq, shutdown_issued, shutdown_done, sd_pc;
/* thread program counters: producer 0 = idle, 1 = registered for an empty object, 2 = holds an object (next: post)
   consumer 0 = idle, 1 = registered for a full object, 2 = holds an object (next: release) */
static int p_pc; static EbObjectWrapper *p_held;
static int c_pc[NCONS], c_gone[NCONS]; static EbObjectWrapper *c_held[NCONS];
static int cur;   /* thread id of the running step, for the publication monitor */
static EbObjectWrapper *pub_obj; static uint32_t pub_live; static EbBool pub_rel;
static int widx(EbObjectWrapper *w) { for (int i = 0; i < NOBJ; i++) if (R->wrapper_ptr_pool[i] == w) return i; V_ASSERT(0, "wrapper belongs to the pool"); return 0; }
static unsigned sem_count(EbHandle h) { return v_obj(h)->count; }
static void pub_monitor(int why, struct VSync *o) {
    /* an object made visible to another thread (pushed to a fifo + semaphore post) must not be written afterwards by the publishing call */
    if (why == 3) {
        for (int q = 0; q < 2; q++) { EbMuxingQueue *mq = q ? R->full_queue : R->empty_queue;
            for (uint32_t i = 0; i < mq->process_total_count; i++) { EbFifo *f = mq->process_fifo_ptr_array[i];
                if (v_obj(f->counting_semaphore) == o && f->last_ptr) { pub_obj = f->last_ptr; pub_live = pub_obj->live_count; pub_rel = pub_obj->release_enable; } } }
    }
}
static void end_of_step(void) {
    if (pub_obj) { V_ASSERT(pub_obj->live_count == pub_live && pub_obj->release_enable == pub_rel, "object state written after it was handed to another thread's fifo (race with the receiver)"); pub_obj = NULL; }
    V_ASSERT(R->empty_queue->process_queue->current_count <= R->empty_queue->process_queue->buffer_total_count, "no waiter registration overwritten in the producers' waiter ring");
}
static void step_producer(void) {
    EbFifo *f = svt_system_resource_get_producer_fifo(R, 0);
    if (p_pc == 0) { get_empty_A(f); p_pc = 1; }
    else if (p_pc == 1) {
        V_ASSUME(sem_count(f->counting_semaphore) > 0);      /* the semaphore wait */
        v_obj(f->counting_semaphore)->count--;
        EbObjectWrapper *w = NULL; get_empty_B(f, &w);
        int i = widx(w);
        V_ASSERT(obj_state[i] == ST_EMPTY, "an object handed out as empty is held by nobody else");
        V_ASSERT(w->live_count == 0 && w->release_enable == EB_TRUE, "object handed out with reset reference state");
        obj_state[i] = ST_PROD; p_held = w; p_pc = 2;
    } else {
        int i = widx(p_held); int refs = (int)vin_range(0, 2);
        if (refs) svt_object_inc_live_count(p_held, (uint32_t)refs);
        obj_need[i] = refs ? refs : 1;
        ((Payload *)p_held->object_ptr)->seq = next_seq++;
        obj_state[i] = ST_FULL;
        svt_post_full_object(p_held); p_held = NULL; p_pc = 0;
    }
}
static void step_consumer(int c) {
    EbFifo *f = svt_system_resource_get_consumer_fifo(R, (uint32_t)c);
    if (c_pc[c] == 0) {
        if (vinbool()) { get_full_A(f); c_pc[c] = 1; }       /* blocking get: register, then wait */
        else {                                               /* non-blocking poll (one critical section + optional take) */
            EbObjectWrapper *w = NULL; svt_get_full_object_non_blocking(f, &w);
            if (w) { int i = widx(w); V_ASSERT(obj_state[i] == ST_FULL, "a delivered object was posted and goes to one consumer only"); obj_state[i] = ST_CONS; c_held[c] = w; c_pc[c] = 2; }
        }
    } else if (c_pc[c] == 1) {
        V_ASSUME(sem_count(f->counting_semaphore) > 0);
        v_obj(f->counting_semaphore)->count--;
        EbObjectWrapper *w = NULL; EbErrorType e = get_full_B(f, &w);
        if (e == EB_NoErrorFifoShutdown) { V_ASSERT(shutdown_issued, "shutdown reported only after shutdown"); c_gone[c] = 1; c_pc[c] = 0; return; }
        V_ASSERT(w != NULL, "a woken consumer finds an object in its fifo");
        V_ASSUME(w != NULL);
        int i = widx(w); V_ASSERT(obj_state[i] == ST_FULL, "a delivered object was posted and goes to one consumer only");
        obj_state[i] = ST_CONS; c_held[c] = w; c_pc[c] = 2;
    } else {
        EbObjectWrapper *w = c_held[c]; int i = widx(w);
#if NCONS == 1
        V_ASSERT(((Payload *)w->object_ptr)->seq == exp_seq, "objects are delivered in posting order"); exp_seq++;
#endif
        int n = obj_need[i];
        for (int k = 0; k < 2; k++) if (k < n) {
            svt_release_object(w);
            if (k + 1 < n) V_ASSERT(w->live_count == (uint32_t)(n - k - 1), "object stays out of the pool while references remain");
        }
        obj_state[i] = ST_EMPTY; c_held[c] = NULL; c_pc[c] = 0;
    }
}
void harness(void) {
    R = (EbSystemResource *)calloc(1, sizeof(*R)); V_ASSUME(R != NULL);
    EbErrorType e = svt_system_resource_ctor(R, NOBJ, 1, NCONS, payload_creator, NULL, NULL); V_ASSUME(e == EB_ErrorNone);
    /* representation invariant established by the constructor: one waiter slot per process fifo (a blocked process registers once) */
    V_ASSERT(R->full_queue->process_queue->buffer_total_count >= (uint32_t)NCONS && R->empty_queue->process_queue->buffer_total_count >= 1u, "waiter ring holds one registration per consumer / producer fifo");
    V_ASSERT(R->full_queue->object_queue->buffer_total_count >= (uint32_t)NOBJ && R->empty_queue->object_queue->buffer_total_count >= (uint32_t)NOBJ, "object rings hold every object of the pool");
    for (int s = 0; s < K; s++) {
        int t = (int)vin_range(0, NCONS + 1);
        cur = t;
        if (t == 0) step_producer();
        else if (t <= NCONS) { if (c_gone[t - 1]) continue; step_consumer(t - 1); }
#ifdef SPLIT_SHUTDOWN
        else {   /* svt_shutdown_process: for each consumer fifo, the pieces of svt_fifo_shutdown in order, one scheduler step each */
            if (sd_pc >= NCONS * FIFO_SHUTDOWN_PIECES) continue;
            shutdown_issued = 1;
            fifo_shutdown_piece(svt_system_resource_get_consumer_fifo(R, (uint32_t)(sd_pc / FIFO_SHUTDOWN_PIECES)), sd_pc % FIFO_SHUTDOWN_PIECES);
            sd_pc++; if (sd_pc == NCONS * FIFO_SHUTDOWN_PIECES) shutdown_done = 1;
        }
#else
        else { if (shutdown_issued) continue; shutdown_issued = 1; shutdown_done = 1; svt_shutdown_process(R); }
#endif
        end_of_step();
    }
    /* quiescence monitors on the final state: a consumer that is registered and waiting must not be starved of an available object */
    int avail = !svt_circular_buffer_empty_check(R->full_queue->object_queue);
    for (int c = 0; c < NCONS; c++) {
        EbFifo *f = svt_system_resource_get_consumer_fifo(R, (uint32_t)c);
        if (c_pc[c] == 1 && sem_count(f->counting_semaphore) == 0) {
            V_ASSERT(!(avail && !shutdown_issued), "a registered, blocked consumer exists while a posted object sits unassigned in the full queue (lost wake-up)");
            V_ASSERT(!shutdown_done, "a consumer stays blocked after shutdown");
        }
    }
    int held = (p_held != NULL); for (int c = 0; c < NCONS; c++) held += (c_held[c] != NULL);
    int in_empty = 0, in_full = 0, in_hand = 0;
    for (int i = 0; i < NOBJ; i++) { in_empty += obj_state[i] == ST_EMPTY; in_full += obj_state[i] == ST_FULL; in_hand += (obj_state[i] == ST_PROD || obj_state[i] == ST_CONS); }
    V_ASSERT(in_hand == held && in_empty + in_full + in_hand == NOBJ, "every object is in exactly one place (pool, full queue/fifo, or one holder)");
    V_END();
}
#ifndef VERIF_CBMC
int main(void) { harness(); puts("REPLAY-OK"); return 0; }
#endif
