/* C23: the real EbSystemResourceManager.c driven by logical threads under a nested-yield scheduler.
 * Scheduling points: every mutex acquire/release, semaphore post and semaphore wait of the real code.
 * At a scheduling point the scheduler may run whole pending operations of OTHER threads (nested,
 * depth <= DEPTH).  A wait on an empty semaphore must yield; if nobody can run, the waiter is blocked
 * forever and the quiescence monitors are evaluated.  Non-nested overlaps (A1 B1 A2 B2) are outside;
 * for those the publication monitor (no write to an object after it was handed to another thread's
 * fifo inside the same critical section) is the stand-in. */
#include "verif.h"
#ifndef NOBJ
#define NOBJ 2
#endif
#ifndef NPROD
#define NPROD 1
#endif
#ifndef NCONS
#define NCONS 2
#endif
#ifndef NOPS
#define NOPS 5      /* total top-level + nested operations */
#endif
#ifndef DEPTH
#define DEPTH 1
#endif
#define NTHR (NPROD + NCONS + 1)   /* + one control thread (shutdown) */

struct VSync;
static void sched_yield_pt(int why, struct VSync *o);
static void sched_sem_blocked(struct VSync *s);
#define V_YIELD(why, obj) sched_yield_pt(why, obj)
#define V_SEM_BLOCKED(s) sched_sem_blocked(s)
#define V_MUTEX_CONTENDED(m) do { V_ASSUME(0); } while (0)  /* holder is suspended below us: schedule not expressible as nesting */
#define V_SYNC_POOL 14
#include "common/threads_model.h"
#include "EbObject.h"
#include "common/dctor_dispatch_srm.h"
#include "Source/Lib/Common/Codec/EbSystemResourceManager.c"
void svt_print_alloc_fail(const char *f, int l) { (void)f; (void)l; }

/* ---- payload objects ---- */
typedef struct Payload { EbDctor dctor; int seq; } Payload;
static EbErrorType payload_creator(EbPtr *obj, EbPtr init) { (void)init; Payload *p = (Payload *)calloc(1, sizeof(Payload)); V_ASSUME(p != NULL); *obj = p; return EB_ErrorNone; }

/* ---- harness-side bookkeeping ---- */
enum { ST_EMPTY, ST_PROD, ST_FULL, ST_CONS };
static EbSystemResource *R;
static int obj_state[NOBJ], obj_holder[NOBJ], obj_need[NOBJ];
static int next_seq, exp_seq;                    /* posting order / expected delivery order (single consumer fifo) */
static int ops_left = NOPS, depth, epoch;
static int on_stack[NTHR], started[NTHR], done_ops[NTHR], blocked_forever;
static int shutdown_issued;
static int cons_waiting[NCONS];                  /* consumer c is inside a blocking get */
static EbObjectWrapper *held[NTHR];
/* publication monitor */
static EbObjectWrapper *pub_obj; static uint32_t pub_live; static EbBool pub_rel; static int pub_epoch, pub_thread;

static int widx(EbObjectWrapper *w) { for (int i = 0; i < NOBJ; i++) if (R->wrapper_ptr_pool[i] == w) return i; V_ASSERT(0, "wrapper returned by the manager belongs to its pool"); return 0; }

static void run_op(int t);
static int pick_runnable(void) {
    int t = (int)vin_range(0, NTHR - 1);
    if (on_stack[t]) return -1;
    return t;
}
static void sched_yield_pt(int why, struct VSync *o) {
    /* publication monitor: an object handed to a fifo (semaphore post) must not be written afterwards
       by the same critical section */
    if (why == 3) {
        for (int q = 0; q < 2; q++) {
            EbMuxingQueue *mq = q ? R->full_queue : R->empty_queue;
            if (!mq) continue;
            for (uint32_t i = 0; i < mq->process_total_count; i++) {
                EbFifo *f = mq->process_fifo_ptr_array[i];
                if (v_obj(f->counting_semaphore) == o && f->last_ptr) {
                    pub_obj = f->last_ptr; pub_live = pub_obj->live_count; pub_rel = pub_obj->release_enable; pub_epoch = epoch; pub_thread = v_cur_thread;
                }
            }
        }
    }
    if (why == 2 && pub_obj && pub_thread == v_cur_thread && pub_epoch == epoch) {
        V_ASSERT(pub_obj->live_count == pub_live && pub_obj->release_enable == pub_rel,
                 "object state written after it was handed to another thread's fifo (unsynchronised with the receiver)");
        pub_obj = NULL;
    }
    if (why == 2) return;                          /* no scheduling after unlock (next acquire yields anyway) */
    if (depth >= DEPTH || ops_left <= 0) return;
    if (!vinbool()) return;
    int t = pick_runnable();
    if (t < 0) return;
    depth++; run_op(t); depth--;
}
static void quiescence_monitors(void) {
    /* nobody can run any more */
    if (R->full_queue) {
        int avail = !svt_circular_buffer_empty_check(R->full_queue->object_queue);
        for (int c = 0; c < NCONS; c++)
            V_ASSERT(!(cons_waiting[c] && avail && !shutdown_issued),
                     "a consumer stays blocked although a posted object is available (lost wake-up)");
    }
    for (int c = 0; c < NCONS; c++)
        V_ASSERT(!(cons_waiting[c] && shutdown_issued), "a consumer stays blocked after shutdown");
}
static void sched_sem_blocked(struct VSync *s) {
    /* must let somebody else run; nested schedules only */
    if (ops_left > 0 && depth < DEPTH + 1) {
        int t = pick_runnable();
        if (t >= 0) { depth++; run_op(t); depth--; if (s->count > 0) return; }
    }
    if (depth == 0 || 1) {
        /* Only a top-level waiter with every other thread idle is truly quiescent. */
        int top = 1;
        for (int t = 0; t < NTHR; t++) if (on_stack[t] && t != v_cur_thread) top = 0;
        if (top && ops_left <= 0) { quiescence_monitors(); blocked_forever = 1; }
    }
    V_ASSUME(0);   /* end of this schedule */
}

/* ---- operations ---- */
static void op_produce(int t) {
    EbFifo *f = svt_system_resource_get_producer_fifo(R, (uint32_t)t);
    EbObjectWrapper *w = NULL;
    svt_get_empty_object(f, &w);
    int i = widx(w);
    V_ASSERT(obj_state[i] == ST_EMPTY, "an object handed out as empty is not held by anybody else");
    V_ASSERT(w->live_count == 0 && w->release_enable == EB_TRUE, "object handed out with reset reference state");
    obj_state[i] = ST_PROD; obj_holder[i] = t;
    int refs = (int)vin_range(0, 2);
    if (refs) svt_object_inc_live_count(w, (uint32_t)refs);
    obj_need[i] = refs ? refs : 1;
    ((Payload *)w->object_ptr)->seq = -1;
    held[t] = w;
    obj_state[i] = ST_FULL;       /* from now on it may be delivered */
    ((Payload *)w->object_ptr)->seq = next_seq++;   /* NPROD==1: program order == posting order */
    svt_post_full_object(w);
}
static void op_consume(int t, int blocking) {
    int c = t - NPROD;
    EbFifo *f = svt_system_resource_get_consumer_fifo(R, (uint32_t)c);
    EbObjectWrapper *w = NULL;
    EbErrorType e;
    if (blocking) { cons_waiting[c] = 1; e = svt_get_full_object(f, &w); cons_waiting[c] = 0; }
    else e = svt_get_full_object_non_blocking(f, &w);
    if (e == EB_NoErrorFifoShutdown) { V_ASSERT(shutdown_issued, "shutdown reported only after shutdown"); return; }
    if (!w) { V_ASSERT(!blocking, "blocking get returns an object"); return; }
    int i = widx(w);
    V_ASSERT(obj_state[i] == ST_FULL, "a delivered object was posted and is delivered to one consumer only");
    obj_state[i] = ST_CONS; obj_holder[i] = t;
#if NCONS == 1 && NPROD == 1
    V_ASSERT(((Payload *)w->object_ptr)->seq == exp_seq, "objects are delivered in posting order");
    exp_seq++;
#endif
    int n = obj_need[i];
    for (int k = 0; k < n; k++) {
        svt_release_object(w);
        if (k + 1 < n) V_ASSERT(w->live_count != EB_ObjectWrapperReleasedValue && w->live_count == (uint32_t)(n - k - 1), "object stays out of the pool while references remain");
    }
    /* back in the pool (possibly already handed to a waiting producer, which resets live_count to 0 under the fifo lock) */
    obj_state[i] = ST_EMPTY;
}
static void run_op(int t) {
    if (ops_left <= 0 || on_stack[t]) return;
    ops_left--; epoch++;
    int save = v_cur_thread; v_cur_thread = t; on_stack[t] = 1;
    if (t < NPROD) op_produce(t);
    else if (t < NPROD + NCONS) op_consume(t, vinbool());
    else { shutdown_issued = 1; svt_shutdown_process(R); }
    on_stack[t] = 0; v_cur_thread = save; epoch++;
}

void harness(void) {
    EbErrorType e;
    R = (EbSystemResource *)calloc(1, sizeof(*R));
    V_ASSUME(R != NULL);
    e = svt_system_resource_ctor(R, NOBJ, NPROD, NCONS, payload_creator, NULL, NULL);
    V_ASSUME(e == EB_ErrorNone);
    for (int k = 0; k < NOPS; k++) {
        if (ops_left <= 0) break;
        int t = (int)vin_range(0, NTHR - 1);
        run_op(t);
    }
    /* end of the run: count invariant -- every object is in exactly one place */
    int in_empty = 0, in_full = 0;
    for (int i = 0; i < NOBJ; i++) { in_empty += obj_state[i] == ST_EMPTY; in_full += obj_state[i] == ST_FULL; }
    V_ASSERT(in_empty + in_full == NOBJ, "no object lost or duplicated when all operations have completed");
    V_ASSERT(R->empty_queue->object_queue->current_count <= NOBJ && (!R->full_queue || R->full_queue->object_queue->current_count <= NOBJ), "queue occupancy never exceeds the number of objects");
    V_END();
}
#ifndef VERIF_CBMC
int main(void) { harness(); puts("REPLAY-OK"); return 0; }
#endif
