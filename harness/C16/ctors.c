/* C15/C16: constructor/destructor pairs of the real code under the EB_NEW protocol, with (FAIL=1) or
 * without (FAIL=0) allocation / OS-object creation failures. */
#include "verif.h"
#include "common/alloc_model.h"
#define V_SYNC_POOL 14
#include "common/threads_model.h"
#include "EbDefinitions.h"
#include "EbObject.h"
#include "EbMalloc.h"
void svt_print_alloc_fail(const char *f, int l) { (void)f; (void)l; }
#ifndef FAIL
#define FAIL 1
#endif
#ifndef MAXREQ
#define MAXREQ 40
#endif
#ifndef SRM_NOBJ
#define SRM_NOBJ 1
#define SRM_NCONS 1
#endif
#if OBJ == 1
#include "Source/Lib/Encoder/Codec/EbEncDecSegments.c"
typedef EncDecSegments T;
static EbErrorType make(T **pp) { EB_NEW(*pp, enc_dec_segments_ctor, (uint32_t)vin_range(1, 3), (uint32_t)vin_range(1, 3)); return EB_ErrorNone; }
#elif OBJ == 2
#include "common/dctor_dispatch_srm.h"
#include "Source/Lib/Common/Codec/EbSystemResourceManager.c"
typedef EbSystemResource T;
typedef struct Payload { EbDctor dctor; int v; } Payload;
static EbErrorType payload_creator(EbPtr *obj, EbPtr init) { (void)init; Payload *p; EB_CALLOC(p, 1, sizeof(Payload)); *obj = p; return EB_ErrorNone; }
static EbErrorType make(T **pp) { EB_NEW(*pp, svt_system_resource_ctor, SRM_NOBJ, 1, SRM_NCONS, payload_creator, NULL, NULL); return EB_ErrorNone; }
#elif OBJ == 3
#include "Source/Lib/Common/Codec/EbPictureBufferDesc.c"
typedef EbPictureBufferDesc T;
static EbErrorType make(T **pp) {
    EbPictureBufferDescInitData d; memset(&d, 0, sizeof d);
    d.max_width = 8; d.max_height = 8; d.bit_depth = vinbool() ? EB_10BIT : EB_8BIT; d.color_format = EB_YUV420;
    d.buffer_enable_mask = (uint32_t)vin_range(1, 7);
    V_ASSUME(d.buffer_enable_mask == 1 || d.buffer_enable_mask == 3 || d.buffer_enable_mask == 6 || d.buffer_enable_mask == 7); /* the masks callers pass: LUMA, Y|Cb, CHROMA, FULL */ d.left_padding = d.right_padding = d.top_padding = d.bot_padding = 2;
    d.split_mode = (EbBool)vinbool(); d.is_16bit_pipeline = (uint8_t)vinbool();
    EB_NEW(*pp, svt_picture_buffer_desc_ctor, (EbPtr)&d); return EB_ErrorNone;
}
#elif OBJ == 4
#include "Source/Lib/Common/Codec/EbBitstreamUnit.c"
typedef OutputBitstreamUnit T;
static EbErrorType make(T **pp) { EB_NEW(*pp, output_bitstream_unit_ctor, (uint32_t)vin_range(1, 64)); return EB_ErrorNone; }
#elif OBJ == 6
/* an object wrapper of the resource manager around a library buffer header: real svt_object_wrapper_ctor / svt_object_wrapper_dctor
 * (EbSystemResourceManager.c) with the real svt_output_recon_buffer_header_creator / _destroyer (sliced by name from EbEncHandle.c) */
#include "common/dctor_dispatch_srm.h"
#include "Source/Lib/Common/Codec/EbSystemResourceManager.c"
#include "EbSequenceControlSet.h"
#include "c16_wrapper.inc"
typedef EbObjectWrapper T;
static EbErrorType make(T **pp) {
    SequenceControlSet *scs = (SequenceControlSet *)(malloc)(sizeof *scs); V_ASSUME(scs != NULL);   /* (malloc): the plain libc function, not counted by the allocation model */
    scs->seq_header.max_frame_width = 8; scs->seq_header.max_frame_height = 8; scs->static_config.encoder_bit_depth = vinbool() ? 10 : 8;
    EB_NEW(*pp, svt_object_wrapper_ctor, NULL, svt_output_recon_buffer_header_creator, (EbPtr)scs, svt_output_recon_buffer_header_destroyer);
    return EB_ErrorNone;
}
#elif OBJ == 5
/* the encoder handle itself: real svt_enc_handle_ctor / svt_enc_handle_dctor / svt_enc_handle_stop_threads (sliced by name from
 * EbEncHandle.c); the sequence-control-set instance constructor is replaced by a stand-in that allocates through the same
 * failure-injecting model (object + sequence control set, then may fail), thread macros by a live counter */
#include "EbSequenceControlSet.h"
#include "EbEncHandle.h"
static int live_threads;
#undef EB_DESTROY_THREAD
#undef EB_DESTROY_THREAD_ARRAY
#define EB_DESTROY_THREAD(pointer) do { if (pointer) { live_threads--; pointer = NULL; } } while (0)
#define EB_DESTROY_THREAD_ARRAY(pa, count) do { if (pa) { for (uint32_t i_ = 0; i_ < (count); i_++) EB_DESTROY_THREAD((pa)[i_]); pa = NULL; } } while (0)
void init_thread_management_params(void) {}
void lib_svt_encoder_send_error_exit(EbPtr hComponent, uint32_t error_code) { (void)hComponent; (void)error_code; }
static void scs_dctor_(EbPtr p) { (void)p; }
static void inst_dctor_(EbPtr p) { EbSequenceControlSetInstance *o = (EbSequenceControlSetInstance *)p; EB_DELETE(o->scs_ptr); }
static EbErrorType scs_ctor_(SequenceControlSet *s) { s->dctor = scs_dctor_; return EB_ErrorNone; }
EbErrorType svt_sequence_control_set_instance_ctor(EbSequenceControlSetInstance *object_ptr) {
    object_ptr->dctor = inst_dctor_;
    void *scratch; EB_MALLOC(scratch, 16); EB_FREE(scratch);          /* stands for the encode context and its tables: may fail before scs_ptr exists */
    /* typed malloc + field-wise initialisation instead of EB_NEW: a calloc'ed 255 kB SequenceControlSet is a zero-initialised byte array that costs minutes of symbolic execution */
    EB_MALLOC(object_ptr->scs_ptr, sizeof(SequenceControlSet)); scs_ctor_(object_ptr->scs_ptr);
    { SequenceControlSet *c = object_ptr->scs_ptr; c->picture_analysis_process_init_count = c->motion_estimation_process_init_count = c->source_based_operations_process_init_count = c->inlme_process_init_count = 0;
      c->mode_decision_configuration_process_init_count = c->enc_dec_process_init_count = c->dlf_process_init_count = c->cdef_process_init_count = c->rest_process_init_count = c->entropy_coding_process_init_count = 0;
      c->total_process_init_count = 0; }
    EB_MALLOC(scratch, 16); EB_FREE(scratch);                         /* ... and allocations after it (sb_params_array etc.) */
    return EB_ErrorNone;
}
/* type-directed destructor dispatch (see common/dctor_dispatch_srm.h for the reason): per static type, assert that the dctor
 * field holds the destructor its constructor installed, then call it directly; every other object type of the handle
 * destructor must still be NULL at this stage */
static void svt_enc_handle_dctor(EbPtr p);
static inline void v_del_handle(EbEncHandle *o) { V_ASSERT(o->dctor == svt_enc_handle_dctor, "dctor field holds the destructor installed by the object's constructor"); svt_enc_handle_dctor(o); }
static inline void v_del_inst(EbSequenceControlSetInstance *o) { V_ASSERT(o->dctor == inst_dctor_, "dctor field holds the destructor installed by the object's constructor"); inst_dctor_(o); }
static inline void v_del_scs(SequenceControlSet *o) { V_ASSERT(o->dctor == scs_dctor_, "dctor field holds the destructor installed by the object's constructor"); scs_dctor_(o); }
static inline void v_del_none(void *o) { (void)o; V_ASSERT(0, "no pool, context or resource object exists while the handle constructor is unwinding"); }
#undef EB_DELETE_UNCHECKED
#define EB_DELETE_UNCHECKED(pobj)                                         \
    do {                                                                  \
        if ((pobj)->dctor)                                                \
            _Generic((pobj),                                              \
                EbEncHandle *: v_del_handle((void *)(pobj)),              \
                EbSequenceControlSetInstance *: v_del_inst((void *)(pobj)), \
                SequenceControlSet *: v_del_scs((void *)(pobj)),          \
                default: v_del_none((void *)(pobj)));                     \
        EB_FREE((pobj));                                                  \
    } while (0)
#include "c16_handle.inc"
typedef EbEncHandle T;
static EbComponentType comp_;
static EbErrorType make(T **pp) { EB_NEW(*pp, svt_enc_handle_ctor, &comp_); return EB_ErrorNone; }
#endif

void harness(void) {
    T *p = NULL;
#if FAIL
#ifdef KLO
    v_arm_single_failure_in(KLO, KHI); v_create_may_fail = 1;   /* fault position k symbolic within [KLO,KHI]; the ranges of the queries partition [0,MAXREQ] */
#else
    v_arm_single_failure(MAXREQ); v_create_may_fail = 1;
#endif
#endif
    EbErrorType r = make(&p);
    int failed = v_alloc_failures;
    v_alloc_fail = 0; v_create_may_fail = 0;
    V_ASSERT(v_alloc_requests <= MAXREQ, "harness bound on the number of allocation requests large enough");
    V_ASSERT((r == EB_ErrorNone) == (failed == 0), "the call reports an error exactly when a request failed");
    if (r == EB_ErrorNone) {
        V_ASSERT(p != NULL, "successful construction returns an object");
        EB_DELETE(p);
    } else {
        V_ASSERT(r == EB_ErrorInsufficientResources, "a failed allocation is reported as EB_ErrorInsufficientResources");
    }
    V_ASSERT(v_alloc_live == 0, "no library allocation left after teardown");
    V_ASSERT(v_live_mutex == 0 && v_live_sem == 0, "no mutex or semaphore left after teardown");
    V_END();
}
#ifndef VERIF_CBMC
int main(void) { harness(); puts("REPLAY-OK"); return 0; }
#endif
