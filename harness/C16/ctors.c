/* C15/C16: constructor/destructor pairs of the real code under the EB_NEW protocol, with (FAIL=1) or
 * without (FAIL=0) allocation / OS-object creation failures. */
#include "verif.h"
#include "common/alloc_model.h"
#define V_SYNC_POOL 14
#include "common/threads_model.h"
#include "EbDefinitions.h"
#include "EbObject.h"
#include "EbMalloc.h"
void svt_print_alloc_fail(const char *f, int l) { (void)f; (void)l; }
#ifndef FAIL
#define FAIL 1
#endif
#ifndef MAXREQ
#define MAXREQ 40
#endif
#ifndef SRM_NOBJ
#define SRM_NOBJ 1
#define SRM_NCONS 1
#endif
#if OBJ == 1
#include "Source/Lib/Encoder/Codec/EbEncDecSegments.c"
typedef EncDecSegments T;
static EbErrorType make(T **pp) { EB_NEW(*pp, enc_dec_segments_ctor, (uint32_t)vin_range(1, 3), (uint32_t)vin_range(1, 3)); return EB_ErrorNone; }
#elif OBJ == 2
#include "common/dctor_dispatch_srm.h"
#include "Source/Lib/Common/Codec/EbSystemResourceManager.c"
typedef EbSystemResource T;
typedef struct Payload { EbDctor dctor; int v; } Payload;
static EbErrorType payload_creator(EbPtr *obj, EbPtr init) { (void)init; Payload *p; EB_CALLOC(p, 1, sizeof(Payload)); *obj = p; return EB_ErrorNone; }
static EbErrorType make(T **pp) { EB_NEW(*pp, svt_system_resource_ctor, SRM_NOBJ, 1, SRM_NCONS, payload_creator, NULL, NULL); return EB_ErrorNone; }
#elif OBJ == 3
#include "Source/Lib/Common/Codec/EbPictureBufferDesc.c"
typedef EbPictureBufferDesc T;
static EbErrorType make(T **pp) {
    EbPictureBufferDescInitData d; memset(&d, 0, sizeof d);
    d.max_width = 8; d.max_height = 8; d.bit_depth = vinbool() ? EB_10BIT : EB_8BIT; d.color_format = EB_YUV420;
    d.buffer_enable_mask = (uint32_t)vin_range(1, 7);
    V_ASSUME(d.buffer_enable_mask == 1 || d.buffer_enable_mask == 3 || d.buffer_enable_mask == 6 || d.buffer_enable_mask == 7); /* the masks callers pass: LUMA, Y|Cb, CHROMA, FULL */ d.left_padding = d.right_padding = d.top_padding = d.bot_padding = 2;
    d.split_mode = (EbBool)vinbool(); d.is_16bit_pipeline = (uint8_t)vinbool();
    EB_NEW(*pp, svt_picture_buffer_desc_ctor, (EbPtr)&d); return EB_ErrorNone;
}
#elif OBJ == 4
#include "Source/Lib/Common/Codec/EbBitstreamUnit.c"
typedef OutputBitstreamUnit T;
static EbErrorType make(T **pp) { EB_NEW(*pp, output_bitstream_unit_ctor, (uint32_t)vin_range(1, 64)); return EB_ErrorNone; }
#endif

void harness(void) {
    T *p = NULL;
#if FAIL
#ifdef KLO
    v_arm_single_failure_in(KLO, KHI); v_create_may_fail = 1;   /* fault position k symbolic within [KLO,KHI]; the ranges of the queries partition [0,MAXREQ] */
#else
    v_arm_single_failure(MAXREQ); v_create_may_fail = 1;
#endif
#endif
    EbErrorType r = make(&p);
    int failed = v_alloc_failures;
    v_alloc_fail = 0; v_create_may_fail = 0;
    V_ASSERT(v_alloc_requests <= MAXREQ, "harness bound on the number of allocation requests large enough");
    V_ASSERT((r == EB_ErrorNone) == (failed == 0), "the call reports an error exactly when a request failed");
    if (r == EB_ErrorNone) {
        V_ASSERT(p != NULL, "successful construction returns an object");
        EB_DELETE(p);
    } else {
        V_ASSERT(r == EB_ErrorInsufficientResources, "a failed allocation is reported as EB_ErrorInsufficientResources");
    }
    V_ASSERT(v_alloc_live == 0, "no library allocation left after teardown");
    V_ASSERT(v_live_mutex == 0 && v_live_sem == 0, "no mutex or semaphore left after teardown");
    V_END();
}
#ifndef VERIF_CBMC
int main(void) { harness(); puts("REPLAY-OK"); return 0; }
#endif
