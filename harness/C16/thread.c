/* C16: svt_create_thread (real EbThreads.c) under pthread_create failure. */
#include "verif.h"
#include "common/alloc_model.h"
#include <pthread.h>
#include <sched.h>
static int threads_created, last_rc;
static int v_pthread_create(pthread_t *th, const pthread_attr_t *a, void *(*fn)(void *), void *ctx) {
    (void)a; (void)fn; (void)ctx;
    int k = (int)vin_range(0, 2);
    last_rc = k == 0 ? 0 : (k == 1 ? EPERM : EAGAIN);
    if (last_rc == 0) { threads_created++; *th = (pthread_t)42; }
    return last_rc;
}
static int v_attr_ok(void) { return 0; }
#define pthread_create v_pthread_create
#define pthread_attr_init(a) v_attr_ok()
#define pthread_attr_setschedpolicy(a, b) v_attr_ok()
#define pthread_attr_setinheritsched(a, b) v_attr_ok()
#define pthread_attr_setschedparam(a, b) v_attr_ok()
#define pthread_attr_destroy(a) v_attr_ok()
#include "Source/Lib/Common/Codec/EbThreads.c"
static void *body(void *c) { return c; }
void harness(void) {
    v_arm_single_failure(2);
    EbHandle h = svt_create_thread(body, NULL);
    v_alloc_fail = 0;
    if (h) {
        V_ASSERT(threads_created == 1 && last_rc == 0, "a non-NULL thread handle means a thread was really created");
        V_ASSERT(*(pthread_t *)h == (pthread_t)42, "the handle holds the created thread's id");
        free(h);
    } else {
        V_ASSERT(threads_created == 0, "a failed creation does not leave a running thread behind");
    }
    V_ASSERT(v_alloc_live == 0, "nothing leaked");
    V_END();
}
#ifndef VERIF_CBMC
int main(void) { harness(); puts("REPLAY-OK"); return 0; }
#endif
