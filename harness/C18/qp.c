/* C18: the frame-quantiser assignment of rate_control_kernel (EbRateControlProcess.c), sliced out of the
 * current source by anchors into qp_block(); every callee that picks a quantiser is an arbitrary-value stub
 * writing exactly the fields the real one writes. One kernel iteration from an arbitrary pre-state. */
#include "verif.h"
#include "EbDefinitions.h"
#include "EbSequenceControlSet.h"
#include "EbPictureControlSet.h"
#include "EbRateControlProcess.h"
#include "EbModeDecisionProcess.h"     /* quantizer_to_qindex */
#include "EbEntropyCoding.h"           /* frame_is_intra_only */
#include "EbRateControlTasks.h"
typedef struct RateControlContext RateControlContext;
typedef struct RateControlIntervalParamContext RateControlIntervalParamContext;
typedef struct RateControlLayerContext RateControlLayerContext;
typedef struct rate_control { int x; } rate_control;
/* ---- stubs for the quantiser pickers (arbitrary results) ---- */
static int32_t cqp_qindex_calc_tpl_la(PictureControlSet *p, void *rc, int32_t q) { (void)p; (void)rc; (void)q; return vini32(); }
static int32_t cqp_qindex_calc(PictureControlSet *p, void *rc, int32_t q) { (void)p; (void)rc; (void)q; return vini32(); }
static int32_t rc_pick_q_and_bounds(PictureControlSet *p) { (void)p; return vini32(); }
static int32_t find_fp_qindex(AomBitDepth b) { (void)b; return vini32(); }
static void process_tpl_stats_frame_kf_gfu_boost(PictureControlSet *p) { (void)p; }
static void frame_level_rc_input_picture_vbr(PictureControlSet *p, SequenceControlSet *s, void *c, void *l, void *r) { (void)s; (void)c; (void)l; (void)r; p->picture_qp = vin8(); }
static void frame_level_rc_input_picture_cvbr(PictureControlSet *p, SequenceControlSet *s, void *c, void *l, void *r) { (void)s; (void)c; (void)l; (void)r; p->picture_qp = vin8(); }
static void rate_control_refinement(PictureControlSet *p, SequenceControlSet *s, void *a, void *b, void *c) { (void)s; (void)a; (void)b; (void)c; p->picture_qp = vin8(); }
static void setup_segmentation(PictureControlSet *p, SequenceControlSet *s, void *l) { (void)p; (void)s; (void)l; }
#include "c18_block.inc"   /* static void qp_block(scs_ptr, pcs_ptr, frm_hdr, context_ptr, rate_control_layer_ptr, rate_control_param_ptr, prev_gop_rate_control_param_ptr, next_gop_rate_control_param_ptr) */

void harness(void) {
    SequenceControlSet *scs = (SequenceControlSet *)malloc(sizeof *scs);
    PictureControlSet *pcs = (PictureControlSet *)malloc(sizeof *pcs);
    PictureParentControlSet *ppcs = (PictureParentControlSet *)malloc(sizeof *ppcs);
    EncodeContext *ec = (EncodeContext *)malloc(sizeof *ec);
    V_ASSUME(scs && pcs && ppcs && ec);
    pcs->parent_pcs_ptr = ppcs; scs->encode_context_ptr = ec;
    EbSvtAv1EncConfiguration *c = &scs->static_config;
    /* configuration as accepted by validation (the relevant fields) */
    c->rate_control_mode = (uint32_t)vin_range(0, 2);
    c->qp = (uint32_t)vin_range(0, 63); c->min_qp_allowed = (uint32_t)vin_range(0, 62); c->max_qp_allowed = (uint32_t)vin_range(0, 63);
    V_ASSUME(c->min_qp_allowed <= c->max_qp_allowed);
    c->use_fixed_qindex_offsets = (EbBool)vinbool(); c->enable_qp_scaling_flag = (uint32_t)vinbool(); c->enable_tpl_la = (uint8_t)vinbool();
    for (int i = 0; i < EB_MAX_TEMPORAL_LAYERS; i++) { c->qindex_offsets[i] = (int32_t)vin_range(-256, 255); c->chroma_qindex_offsets[i] = (int32_t)vin_range(-256, 255); }
    c->key_frame_qindex_offset = (int32_t)vin_range(-256, 255); c->key_frame_chroma_qindex_offset = (int32_t)vin_range(-256, 255);
    c->rc_twopass_stats_in.sz = vinbool() ? 64 : 0; c->rc_firstpass_stats_out = (EbBool)vinbool(); c->encoder_bit_depth = 8;
    scs->lap_enabled = (uint8_t)vinbool();
    pcs->temporal_layer_index = (uint8_t)vin_range(0, 5); ppcs->temporal_layer_index = pcs->temporal_layer_index;
    ppcs->qp_on_the_fly = (EbBool)vinbool();
    pcs->picture_qp = (uint8_t)vin_range(0, 63); ppcs->picture_qp = (uint8_t)vin_range(0, 255);
    if (!ppcs->qp_on_the_fly) V_ASSUME(pcs->picture_qp == c->qp);   /* set from the configured QP earlier in the kernel */
    ppcs->frm_hdr.frame_type = (FrameType)vin_range(0, 3); ppcs->gf_group_index = 0; ec->gf_group.update_type[0] = (uint8_t)vin_range(0, 6); ppcs->r0 = 0;
    FrameHeader *frm_hdr = &ppcs->frm_hdr;
    frm_hdr->quantization_params.base_q_idx = vin8();
    uint32_t scaling = c->enable_qp_scaling_flag;

    qp_block(scs, pcs, frm_hdr, NULL, NULL, NULL, NULL, NULL);

    int lo = quantizer_to_qindex[c->min_qp_allowed], hi = quantizer_to_qindex[c->max_qp_allowed];
    int q = frm_hdr->quantization_params.base_q_idx;
    int chosen = c->rate_control_mode > 0 || c->use_fixed_qindex_offsets || ppcs->qp_on_the_fly || scaling;
    if (chosen)
        V_ASSERT(q >= lo && q <= hi, "base quantiser index within [qindex(min_qp), qindex(max_qp)] whenever rate control / scaling / fixed offsets choose it");
    if (c->rate_control_mode == 0 && !c->use_fixed_qindex_offsets && !scaling && !ppcs->qp_on_the_fly)
        V_ASSERT(q == quantizer_to_qindex[c->qp], "fixed-QP coding without scaling uses the index of the configured QP");
    if (c->rate_control_mode == 0 && c->use_fixed_qindex_offsets) {
        int off = (ppcs->frm_hdr.frame_type == KEY_FRAME || ppcs->frm_hdr.frame_type == INTRA_ONLY_FRAME) ? c->key_frame_qindex_offset : c->qindex_offsets[pcs->temporal_layer_index];
        int want = quantizer_to_qindex[c->qp] + off; if (want < lo) want = lo; if (want > hi) want = hi;
        V_ASSERT(q == want, "fixed offsets: index of the configured QP plus the configured offset, clipped to the bounds");
    }
    V_ASSERT(pcs->picture_qp >= c->min_qp_allowed && pcs->picture_qp <= c->max_qp_allowed || !chosen, "picture QP within the configured bounds");
    V_END();
}
#ifndef VERIF_CBMC
int main(void) { harness(); puts("REPLAY-OK"); return 0; }
#endif
