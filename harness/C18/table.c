#include "verif.h"
#include "EbDefinitions.h"
#include "EbSequenceControlSet.h"
#include "EbPictureControlSet.h"
#include "EbModeDecisionProcess.h"
void harness(void) {
    int a = (int)vin_range(0, 63), b = (int)vin_range(0, 63);
    V_ASSERT(sizeof(quantizer_to_qindex) == 64, "one entry per QP 0..63");
    if (a < b) V_ASSERT(quantizer_to_qindex[a] < quantizer_to_qindex[b], "qindex strictly increasing in QP");
    V_ASSERT(quantizer_to_qindex[63] == 255 && quantizer_to_qindex[0] == 0, "end points");
    V_END();
}
#ifndef VERIF_CBMC
int main(void) { harness(); puts("REPLAY-OK"); return 0; }
#endif
