/* C24: EncDec wavefront segments.  Real enc_dec_segments_ctor/_init (EbEncDecSegments.c), real
 * assign_enc_dec_segments (EbEncDecProcess.c), and the SB walk of mode_decision_kernel sliced out of
 * the current source into c24_walk.inc by the check's generator. */
#include "verif.h"
#ifndef PW
#define PW 3
#endif
#ifndef PH
#define PH 3
#endif
#ifndef MAXSEG
#define MAXSEG 4
#endif
#ifndef NWORK
#define NWORK 3
#endif
#ifndef NSTEPS
#define NSTEPS 24
#endif
struct VSync;
static void lock_monitor(int why, struct VSync *m);
#define V_YIELD(why, obj) lock_monitor(why, obj)
#define V_SYNC_POOL (MAXSEG + 2)
#include "common/threads_model.h"
#include "Source/Lib/Encoder/Codec/EbEncDecSegments.c"
#include "Source/Lib/Encoder/Codec/EbEncDecProcess.c"
void svt_print_alloc_fail(const char *f, int l) { (void)f; (void)l; }

static EncDecSegments *S;
/* ---- feedback task pool (stands for the EncDec tasks system resource) ---- */
#define NTASK 8
static EncDecTasks task_pool[NTASK]; static EbObjectWrapper task_wr[NTASK];
static int task_used, q_head, q_tail; static EbObjectWrapper *queue[NTASK + 1];
EbErrorType svt_get_empty_object(EbFifo *f, EbObjectWrapper **w) {
    (void)f; V_ASSERT(task_used < NTASK, "harness task pool large enough"); V_ASSUME(task_used < NTASK);
    /* task objects are recycled by the real pool: hand them out with stale (poisoned) contents */
    task_pool[task_used].tile_group_index = 0x7ABC; task_pool[task_used].pcs_wrapper_ptr = NULL; task_pool[task_used].input_type = 0x55; task_pool[task_used].enc_dec_segment_row = 0x7ABC;
    task_wr[task_used].object_ptr = &task_pool[task_used]; *w = &task_wr[task_used++]; return EB_ErrorNone;
}
static EbObjectWrapper v_pcs_wrapper; static EncDecTasks first;
EbErrorType svt_post_full_object(EbObjectWrapper *w) {
    EncDecTasks *t = (EncDecTasks *)w->object_ptr;
    V_ASSERT(t->input_type == ENCDEC_TASKS_ENCDEC_INPUT && t->pcs_wrapper_ptr == first.pcs_wrapper_ptr && t->tile_group_index == first.tile_group_index,
             "a feedback task names the picture and the tile group of the task that produced it (no stale field of the recycled task object)");
    queue[q_tail++] = w; return EB_ErrorNone; }

/* ---- lock discipline: data of segment row r changes only while row r's mutex is held ---- */
static uint16_t snap_cur[MAXSEG]; static uint8_t snap_dep[MAXSEG * 2 * MAXSEG]; static int in_cs = -1;
static int row_of_mutex(struct VSync *m) { for (uint32_t r = 0; r < S->segment_max_row_count; r++) if (v_obj(S->row_array[r].assignment_mutex) == m) return (int)r; return -1; }
static void lock_monitor(int why, struct VSync *m) {
    if (!S) return;
    int r = row_of_mutex(m);
    if (r < 0) return;
    if (why == 1) {   /* about to lock row r */
        for (uint32_t i = 0; i < S->segment_row_count; i++) snap_cur[i] = S->row_array[i].current_seg_index;
        for (uint32_t i = 0; i < S->segment_ttl_count; i++) snap_dep[i] = S->dep_map.dependency_map[i];
        in_cs = r;
    } else if (why == 2 && in_cs == r) {   /* just unlocked row r */
        for (uint32_t i = 0; i < S->segment_row_count; i++)
            if ((int)i != r) V_ASSERT(snap_cur[i] == S->row_array[i].current_seg_index, "row cursor of another segment row changed while only this row's mutex was held");
        for (uint32_t i = 0; i < S->segment_ttl_count; i++)
            if ((int)(i / S->segment_band_count) != r) V_ASSERT(snap_dep[i] == S->dep_map.dependency_map[i], "dependency counter of another segment row changed while only this row's mutex was held");
        in_cs = -1;
    }
}

/* ---- monitors over superblocks ---- */
static int sb_done[PH][PW], sb_started[PH][PW], seg_started[MAXSEG * 2 * MAXSEG], seg_finished[MAXSEG * 2 * MAXSEG];
static unsigned seg_of(unsigned x, unsigned y) {
    unsigned b = BAND_INDEX(x, y, S->segment_band_count, S->sb_band_count);
    unsigned r = ROW_INDEX(y, S->segment_row_count, S->sb_row_count);
    return SEGMENT_INDEX(r, b, S->segment_band_count);
}
static int visit_phase; static unsigned visit_seg;
static void visit_sb(unsigned x, unsigned y) {
    V_ASSERT(x < PW && y < PH, "segment walk stays inside the picture");
    if (!(x < PW && y < PH)) return;
    if (visit_phase == 0) {       /* start of the segment: neighbour availability */
        V_ASSERT(seg_of(x, y) == visit_seg, "segment walk visits only superblocks of its own segment");
        V_ASSERT(!sb_started[y][x], "superblock processed at most once");
        sb_started[y][x] = 1;
        if (x > 0) V_ASSERT(sb_done[y][x - 1] || seg_of(x - 1, y) == visit_seg, "left neighbour finished before the segment starts");
        if (y > 0) V_ASSERT(sb_done[y - 1][x] || seg_of(x, y - 1) == visit_seg, "upper neighbour finished before the segment starts");
        if (y > 0 && x + 1 < PW) V_ASSERT(sb_done[y - 1][x + 1] || seg_of(x + 1, y - 1) == visit_seg, "upper-right neighbour finished before the segment starts");
    } else sb_done[y][x] = 1;
}
/* R (bounded run) marks superblocks by segment membership (concrete after initialisation, so these are
 * constant-bound loops with one symbolic comparison each); that the real walk visits exactly the members
 * of each segment is decided separately by the geometry queries (MODE 2). */
static void mark_segment(unsigned s, int phase) {
    visit_phase = phase; visit_seg = s;
    for (unsigned y = 0; y < PH; y++) for (unsigned x = 0; x < PW; x++) if (seg_of(x, y) == s) visit_sb(x, y);
}
#include "c24_walk.inc"   /* static void walk_segment(EncDecSegments *segments_ptr, uint16_t segment_index, uint32_t tile_group_width_in_sb) */

#if MODE == 1
/* R: bounded run, symbolic segment grid, symbolic worker schedule */
void harness(void) {
#ifdef SC
    uint32_t sc = SC, sr = SR;      /* concrete requested grid (may exceed the picture: clamping is exercised) */
#else
    uint32_t sc = (uint32_t)vin_range(1, MAXSEG), sr = (uint32_t)vin_range(1, MAXSEG);
#endif
    static EncDecSegments S_obj; S = &S_obj;   /* typed static object (a calloc-ed one is a byte array: every field access becomes a byte extract) */
    EbErrorType e = enc_dec_segments_ctor(S, MAXSEG, MAXSEG); V_ASSUME(e == EB_ErrorNone);
    enc_dec_segments_init(S, sc, sr, PW, PH);
    /* geometry post-conditions */
    unsigned total = 0;
    for (uint32_t i = 0; i < S->segment_ttl_count; i++) total += S->valid_sb_count_array[i];
    V_ASSERT(total == PW * PH, "segments partition the picture: valid superblock counts sum to width*height");
    V_ASSERT(S->segment_row_count <= PH && S->segment_row_count >= 1, "segment rows clamped to the picture's superblock rows");
    /* workers */
    int busy[NWORK]; uint16_t cur[NWORK]; EncDecTasks wtask[NWORK];
    for (int w = 0; w < NWORK; w++) busy[w] = 0;
    first.input_type = ENCDEC_TASKS_MDC_INPUT; first.tile_group_index = 1; first.pcs_wrapper_ptr = &v_pcs_wrapper; static EbObjectWrapper firstw; firstw.object_ptr = &first;
    queue[q_tail++] = &firstw;
    for (int step = 0; step < NSTEPS; step++) {
        int w = (int)vin_range(0, NWORK - 1);
        EbBool got;
        if (!busy[w]) {
            if (q_head == q_tail) continue;                 /* nothing to pick up */
            wtask[w] = *(EncDecTasks *)queue[q_head++]->object_ptr;
            v_cur_thread = w;
            got = assign_enc_dec_segments(S, &cur[w], &wtask[w], NULL);
        } else {
            mark_segment(cur[w], 1);   /* segment finished */
            seg_finished[cur[w]] = 1; busy[w] = 0;
            v_cur_thread = w;
            got = assign_enc_dec_segments(S, &cur[w], &wtask[w], NULL);
        }
        if (got) {
            V_ASSERT(cur[w] < S->segment_ttl_count, "assigned segment index in range");
            V_ASSUME(cur[w] < S->segment_ttl_count);
            V_ASSERT(!seg_started[cur[w]], "a segment is handed out once");
            V_ASSERT(S->valid_sb_count_array[cur[w]] > 0, "only non-empty segments are handed out");
            seg_started[cur[w]] = 1; busy[w] = 1;
            mark_segment(cur[w], 0);
        }
    }
    int anybusy = 0; for (int w = 0; w < NWORK; w++) anybusy |= busy[w];
    if (!anybusy && q_head == q_tail) {
        /* quiescent: the picture must be complete */
        for (unsigned y = 0; y < PH; y++) for (unsigned x = 0; x < PW; x++)
            V_ASSERT(sb_done[y][x], "every superblock processed when no worker is active and no task is pending (picture completes)");
    }
    V_END();
}
#else
/* G: geometry only, larger picture, symbolic grid */
void harness(void) {
#ifdef SC
    uint32_t sc = SC, sr = SR;
#else
    uint32_t sc = (uint32_t)vin_range(1, MAXSEG), sr = (uint32_t)vin_range(1, MAXSEG);
#endif
    static EncDecSegments S_obj; S = &S_obj;   /* typed static object (a calloc-ed one is a byte array: every field access becomes a byte extract) */
    EbErrorType e = enc_dec_segments_ctor(S, MAXSEG, MAXSEG); V_ASSUME(e == EB_ErrorNone);
    enc_dec_segments_init(S, sc, sr, PW, PH);
    unsigned total = 0;
    for (uint32_t i = 0; i < S->segment_ttl_count; i++) total += S->valid_sb_count_array[i];
    V_ASSERT(total == PW * PH, "segments partition the picture");
    V_ASSERT(S->segment_row_count >= 1 && S->segment_row_count <= PH && S->segment_row_count <= sr, "segment rows clamped to min(requested, superblock rows)");
    for (uint32_t r = 0; r < S->segment_row_count; r++) {
        V_ASSERT(S->row_array[r].starting_seg_index <= S->row_array[r].ending_seg_index, "row start <= row end");
        V_ASSERT(S->row_array[r].starting_seg_index / S->segment_band_count == r && S->row_array[r].ending_seg_index / S->segment_band_count == r, "row bounds inside the row");
        V_ASSERT(S->valid_sb_count_array[S->row_array[r].starting_seg_index] > 0 && S->valid_sb_count_array[S->row_array[r].ending_seg_index] > 0, "row start/end segments are non-empty");
    }
    for (unsigned y = 0; y < PH; y++) for (unsigned x = 0; x < PW; x++) {
        unsigned s = seg_of(x, y);
        V_ASSERT(s < S->segment_ttl_count, "segment index in range");
        unsigned r = s / S->segment_band_count;
        V_ASSERT(s >= S->row_array[r].starting_seg_index && s <= S->row_array[r].ending_seg_index, "every superblock's segment lies between its row's start and end");
    }
    /* every non-empty segment's walk visits exactly its members */
    for (uint32_t s = 0; s < S->segment_ttl_count; s++) if (S->valid_sb_count_array[s]) { visit_phase = 0; visit_seg = s; for (unsigned y = 0; y < PH; y++) for (unsigned x = 0; x < PW; x++) sb_done[y][x] = 1; walk_segment(S, (uint16_t)s, PW); }
    for (unsigned y = 0; y < PH; y++) for (unsigned x = 0; x < PW; x++) V_ASSERT(sb_started[y][x], "every superblock belongs to some segment's walk");
    V_END();
}
#endif
#ifndef VERIF_CBMC
int main(void) { harness(); puts("REPLAY-OK"); return 0; }
#endif
