/* C04 (arrival-order independence of a re-sequencing queue): real determine_picture_offset_in_queue
 * (EbInitialRateControlProcess.c, sliced by name).  Motion-estimation results of different pictures arrive in an
 * order that depends on thread scheduling; the slot a picture gets in the initial-rate-control reorder queue and
 * the queue state afterwards must be a function of the picture numbers only.  Two copies of the same queue state
 * receive the same two pictures in opposite orders (2-safety); every entry of both queues is compared. */
#include "verif.h"
#include "EbDefinitions.h"
#include "EbEncodeContext.h"
#include "EbPictureControlSet.h"
#include "EbMotionEstimationResults.h"
#include "EbInitialRateControlReorderQueue.h"
#include "c04_irc.inc"
#define D INITIAL_RATE_CONTROL_REORDER_QUEUE_MAX_DEPTH
#ifndef HEAD
#define HEAD 2046
#endif
#define NCMP 6   /* entries compared around the head: HEAD-1 .. HEAD+4 (mod D); all other entries are never indexed (asserted) */
/* Only the NCMP slots around the head are backed by entries; every other slot of the 2048-deep pointer table is NULL,
 * so an insertion that indexes outside the window of in-flight pictures is a NULL dereference in the real function. */
static EncodeContext *mkctx(InitialRateControlReorderEntry *ents, uint64_t headnum, EbObjectWrapper **stale) {
    EncodeContext *c = (EncodeContext *)malloc(sizeof *c); V_ASSUME(c != NULL);
    c->initial_rate_control_reorder_queue = (InitialRateControlReorderEntry **)calloc(D, sizeof(void *)); V_ASSUME(c->initial_rate_control_reorder_queue != NULL);
    c->initial_rate_control_reorder_queue_head_index = HEAD;
    /* representation invariant of the queue: the head slot carries the next picture number to release */
    for (int k = 0; k < NCMP; k++) { int i = (HEAD + D - 1 + k) % D; c->initial_rate_control_reorder_queue[i] = &ents[k];
        ents[k].picture_number = (k == 1) ? headnum : (uint64_t)(uintptr_t)stale[k] /* stale */; ents[k].parent_pcs_wrapper_ptr = NULL; }
    return c;
}
void harness(void) {
    static InitialRateControlReorderEntry e1[NCMP], e2[NCMP];
    uint64_t headnum = vin64(); V_ASSUME(headnum < (1ull << 62));
    EbObjectWrapper *stale[NCMP]; for (int k = 0; k < NCMP; k++) stale[k] = (EbObjectWrapper *)(uintptr_t)vin64();
    EncodeContext *c1 = mkctx(e1, headnum, stale), *c2 = mkctx(e2, headnum, stale);
    PictureParentControlSet *pa = (PictureParentControlSet *)malloc(sizeof *pa), *pb = (PictureParentControlSet *)malloc(sizeof *pb); V_ASSUME(pa && pb);
    MotionEstimationResults ra, rb; EbObjectWrapper wa, wb; ra.pcs_wrapper_ptr = &wa; rb.pcs_wrapper_ptr = &wb;
    unsigned da = (unsigned)vin_range(0, 4), db = (unsigned)vin_range(0, 4); V_ASSUME(da != db);    /* two different pictures inside the window of in-flight pictures */
    pa->picture_number = headnum + da; pb->picture_number = headnum + db;
    InitialRateControlReorderEntry *sa1 = determine_picture_offset_in_queue(c1, pa, &ra);
    InitialRateControlReorderEntry *sb1 = determine_picture_offset_in_queue(c1, pb, &rb);
    InitialRateControlReorderEntry *sb2 = determine_picture_offset_in_queue(c2, pb, &rb);
    InitialRateControlReorderEntry *sa2 = determine_picture_offset_in_queue(c2, pa, &ra);
    V_ASSERT(sa1 - e1 == sa2 - e2 && sb1 - e1 == sb2 - e2, "a picture's slot does not depend on the order in which results arrive");
    V_ASSERT(sa1 != sb1, "different pictures get different slots");
    V_ASSERT(sa1 - e1 == (long)(1 + da) && sb1 - e1 == (long)(1 + db), "slot = head + distance from the next picture to release, modulo the queue depth");
    for (int i = 0; i < NCMP; i++) {
        V_ASSERT(e1[i].picture_number == e2[i].picture_number && (e1[i].parent_pcs_wrapper_ptr == &wa) == (e2[i].parent_pcs_wrapper_ptr == &wa) && (e1[i].parent_pcs_wrapper_ptr == &wb) == (e2[i].parent_pcs_wrapper_ptr == &wb) && (e1[i].parent_pcs_wrapper_ptr == NULL) == (e2[i].parent_pcs_wrapper_ptr == NULL),
                 "queue contents after both arrivals are identical for both arrival orders"); }
    V_ASSERT(e1[1].picture_number == headnum, "the head slot still names the next picture to release");
    V_ASSERT(c1->initial_rate_control_reorder_queue_head_index == HEAD, "insertion does not move the head");
    V_END();
}
#ifndef VERIF_CBMC
int main(void) { harness(); puts("REPLAY-OK"); return 0; }
#endif
