/* C04 (hand-shake state of a recycled picture control set): PictureParentControlSet objects are recycled through a
 * pool; which object a picture gets depends on scheduling.  Real reset_pcs_av1 (EbResourceCoordinationProcess.c,
 * sliced by name) with the real svt_create_cond_var / atomic_set_u32 (EbThreads.c, sliced by name) on an object with
 * ARBITRARY previous contents: every readiness/hand-shake field other threads wait on must come out in its
 * "nothing announced yet" state, so that the ME->TPL hand-shake cannot be satisfied by the previous picture. */
#include "verif.h"
#include "EbDefinitions.h"
#include "EbSequenceControlSet.h"
#include "EbPictureControlSet.h"
#include "EbThreads.h"
#include "EbTransforms.h"
#ifdef VERIF_CBMC
int pthread_mutex_init(pthread_mutex_t *m, const pthread_mutexattr_t *a) { (void)m; (void)a; return 0; }
int pthread_cond_init(pthread_cond_t *c, const pthread_condattr_t *a) { (void)c; (void)a; return 0; }
#endif
static int lock_depth;
EbErrorType svt_block_on_mutex(EbHandle h) { (void)h; lock_depth++; return EB_ErrorNone; }
EbErrorType svt_release_mutex(EbHandle h) { (void)h; lock_depth--; return EB_ErrorNone; }
#include "c04_reset.inc"
void harness(void) {
    PictureParentControlSet *p = (PictureParentControlSet *)malloc(sizeof *p); Av1Common *cm = (Av1Common *)malloc(sizeof *cm);
    V_ASSUME(p && cm);
    p->av1_cm = cm; p->picture_number = vin64();
    /* previous picture's leftovers */
    p->me_ready.val = (int32_t)vin32(); p->tpl_me_done = vin8(); p->num_tpl_grps = vin8(); p->num_tpl_processed = vin8();
    p->me_data_wrapper_ptr = (EbObjectWrapper *)(uintptr_t)vin64();
    p->pame_done.obj = vin32(); p->pame_done.mutex = (EbHandle)(uintptr_t)1;
    EbErrorType e = reset_pcs_av1(p);
    V_ASSERT(e == EB_ErrorNone, "reset succeeds");
    V_ASSERT(p->me_ready.val == 0, "ME->TPL readiness flag of a recycled picture control set is lowered before the picture enters the pipeline");
    V_ASSERT(p->tpl_me_done == 0 && p->num_tpl_grps == 0 && p->num_tpl_processed == 0 && p->me_data_wrapper_ptr == NULL, "TPL hand-shake counters restart at zero");
    V_ASSERT(p->pame_done.obj == 0 && lock_depth == 0, "PA-ME done flag lowered (under its mutex)");
    V_END();
}
#ifndef VERIF_CBMC
int main(void) { harness(); puts("REPLAY-OK"); return 0; }
#endif
