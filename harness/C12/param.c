/* C12: parameter validation vs. the documented parameter domain.
 * Real copy_api_from_app + verify_settings.  The configuration is the library's defaults with a valid
 * picture size; ONE table-selected field (or one coupled group) is made symbolic; the oracle clause for
 * that field is generated from models/param_doc.tsv (each row cites the documentation line it transcribes). */
#include "verif.h"
#include "common/enc_handle.h"
static SequenceControlSet *scs_p;
static EbErrorType validate(EbSvtAv1EncConfiguration *c) {
    if (!scs_p) { scs_p = (SequenceControlSet *)malloc(sizeof *scs_p); V_ASSUME(scs_p != NULL); }
    set_default_configuration_parameters(scs_p);
    copy_api_from_app(scs_p, c);
    return verify_settings(scs_p);
}
static void base(EbSvtAv1EncConfiguration *c) { svt_svt_enc_init_parameter(c); c->source_width = 640; c->source_height = 480; }
#define ACC(r) ((r) == EB_ErrorNone)

void single_fields(void) {
    EbSvtAv1EncConfiguration c; base(&c);
    int which = (int)vin_range(0, NFIELDS - 1);
    int64_t v = (int64_t)vini32();
    switch (which) {
#include "c12_fields.inc"
    }
    EbErrorType r = validate(&c);      /* one call for all fields; the per-field verdicts are the assertions below */
    switch (which) {
#include "c12_asserts.inc"
    }
    V_END();
}
void picture_size(void) {
    EbSvtAv1EncConfiguration c; base(&c);
    c.source_width = vin32(); c.source_height = vin32();
    int ok = c.source_width >= 64 && c.source_width <= 4096 && c.source_height >= 64 && c.source_height <= 2160 && c.source_width % 2 == 0 && c.source_height % 2 == 0;
    EbErrorType r = validate(&c);
    V_ASSERT(ACC(r) == ok, "picture size accepted exactly for even sizes within 64..4096 x 64..2160");
    V_END();
}
void qp_bounds(void) {
    EbSvtAv1EncConfiguration c; base(&c);
    c.rate_control_mode = 1;      /* the bounds are only taken from the caller when rate control is on (ignored for CQP) */
    c.min_qp_allowed = vin32(); c.max_qp_allowed = vin32();
    /* MinQpAllowed / MaxQpAllowed [0 - 63] in the user guide; the API test suite (test/api_test/params.h) lists min_qp 63 as invalid:
       the documentation is contradictory at exactly min_qp == 63, which is therefore left undecided */
    int ok = c.max_qp_allowed <= 63 && c.min_qp_allowed <= 62 && c.min_qp_allowed <= c.max_qp_allowed;
    int bad = c.max_qp_allowed > 63 || c.min_qp_allowed > 63 || c.min_qp_allowed > c.max_qp_allowed;
    EbErrorType r = validate(&c);
    if (ok) V_ASSERT(ACC(r), "min/max QP inside [0,63] with min <= max accepted");
    if (bad) V_ASSERT(!ACC(r), "min/max QP outside [0,63] or min > max rejected");
    V_END();
}
void tiles(void) {
    EbSvtAv1EncConfiguration c; base(&c);
    c.tile_rows = vini32(); c.tile_columns = vini32();
    /* TileRow/TileCol [0-6]; AV1 Annex A.3 (quoted by the encoder's own message): at most 128 tiles and 16 tile columns */
    int ok = c.tile_rows >= 0 && c.tile_rows <= 6 && c.tile_columns >= 0 && c.tile_columns <= 4 && (c.tile_rows + c.tile_columns) <= 7;
    EbErrorType r = validate(&c);
    V_ASSERT(ACC(r) == ok, "tile layout accepted exactly for log2 rows 0..6, log2 columns 0..4 and at most 128 tiles");
    V_END();
}
void rc_lookahead(void) {
    EbSvtAv1EncConfiguration c; base(&c);
    c.rate_control_mode = (uint32_t)vin_range(0, 2); c.intra_period_length = (int32_t)vin_range(-1, 300);   /* -2 (auto) is derived from frame rate and GOP size before the coupling check: not modelled here */ c.look_ahead_distance = vin32();
    c.enable_tpl_la = 0;     /* keep the look-ahead as configured (tpl forces its own) */
    /* LookAheadDistance [0 - 120]; "When RateControlMode is set to 1 or 2 it's strongly recommended to set this parameter
       to be equal to the Intra period value"; the encoder enforces equality for mode 2 after clamping the value to 2*fps (fps=30) and 120 */
    uint32_t lad = c.look_ahead_distance;
    int in_range = lad <= 120 || lad == 0xFFFFFFFFu;
    int ip_ok = c.rate_control_mode == 0 ? 1 : c.intra_period_length <= 255;
    uint32_t eff = lad == 0xFFFFFFFFu ? lad : (c.rate_control_mode == 0 ? (lad > 33 ? 33 : lad) : (lad > 60 ? 60 : lad));
    int couple_ok = !(c.rate_control_mode == 2 && c.intra_period_length >= 0 && lad != 0xFFFFFFFFu && eff != (uint32_t)c.intra_period_length);
    EbErrorType r = validate(&c);
    if (in_range && ip_ok && couple_ok) V_ASSERT(ACC(r), "documented look-ahead / intra-period / rate-control combinations are accepted");
    if (!in_range) V_ASSERT(!ACC(r), "look-ahead distance above the documented maximum of 120 is rejected");
    if (!ip_ok) V_ASSERT(!ACC(r), "intra period above 255 with rate control is rejected");
    if (in_range && ip_ok && !couple_ok) V_ASSERT(!ACC(r), "CVBR with a look-ahead different from the intra period is rejected");
    V_END();
}
void profile_depth_format(void) {
    EbSvtAv1EncConfiguration c; base(&c);
    c.profile = (uint32_t)vin_range(0, 3); c.encoder_bit_depth = vin32(); c.encoder_color_format = (EbColorFormat)vin_range(0, 4);
    /* EncoderBitDepth [8, 10]; Profile [0-2]; main profile = 4:2:0 8/10 bit.  Only 4:2:0 is implemented (encoder message). */
    int ok = (c.encoder_bit_depth == 8 || c.encoder_bit_depth == 10) && c.profile == 0 && c.encoder_color_format == EB_YUV420;
    EbErrorType r = validate(&c);
    if (ok) V_ASSERT(ACC(r), "main profile 4:2:0 8/10-bit accepted");
    if (c.encoder_bit_depth != 8 && c.encoder_bit_depth != 10) V_ASSERT(!ACC(r), "bit depths other than 8 and 10 rejected");
    if (c.profile > 2) V_ASSERT(!ACC(r), "profile above 2 rejected");
    V_END();
}
#ifndef VERIF_CBMC
int main(void) { V_ENTRY(); puts("REPLAY-OK"); return 0; }
#endif
