/* C20 (block level, chroma-from-luma): the real candidate injectors inject_filter_intra_candidates and
 * inject_palette_candidates of EbModeDecision.c (sliced by name): when the configuration turns chroma-from-luma off
 * (disable_cfl_flag = 1), no intra candidate they hand to mode decision uses the CfL chroma mode -- for every block
 * geometry, chroma search level, per-block CfL switch and palette search result. */
#include "verif.h"
#include "EbDefinitions.h"
#include "EbSequenceControlSet.h"
#include "EbPictureControlSet.h"
#include "EbModeDecision.h"
#include "EbTransformUnit.h"
#include "EbModeDecisionProcess.h"
#include "EbIntraPrediction.h"
#include "EbLog.h"
#ifndef NPAL
#define NPAL 2
#endif
#ifndef PAETH
#define PAETH 1
#endif
void svt_log(SvtLogLevel level, const char *tag, const char *format, ...) { (void)level; (void)tag; (void)format; }
/* environment: the transform-type helper returns any transform type; the palette colour search returns any number of
 * palettes 0..NPAL with arbitrary sizes */

TxType av1_get_tx_type(BlockSize sb_type, int32_t is_inter, PredictionMode pred_mode, UvPredictionMode pred_mode_uv, PlaneType plane_type, const MacroBlockD *xd, int32_t blk_row, int32_t blk_col, TxSize tx_size, int32_t reduced_tx_set) {
    (void)sb_type; (void)is_inter; (void)pred_mode; (void)pred_mode_uv; (void)plane_type; (void)xd; (void)blk_row; (void)blk_col; (void)tx_size; (void)reduced_tx_set;
    return (TxType)vin_range(0, TX_TYPES - 1); }
void search_palette_luma(PictureControlSet *pcs_ptr, ModeDecisionContext *context_ptr, PaletteInfo *palette_cand, uint32_t *tot_palette_cands) {
    (void)pcs_ptr; (void)context_ptr; uint32_t n = NPAL;   /* concrete per query: a symbolic count makes every candidate store a symbolic-index write into an array of large structs */
    for (uint32_t i = 0; i < NPAL; i++) if (i < n) palette_cand[i].pmi.palette_size[0] = (uint8_t)vin_range(2, 8);
    *tot_palette_cands = n; }
#include "c20_cfl.inc"
static const uint8_t bdim[6] = {4, 8, 16, 32, 64, 128};
void harness(void) {
    SequenceControlSet *scs = (SequenceControlSet *)malloc(sizeof *scs);
    PictureControlSet *pcs = (PictureControlSet *)malloc(sizeof *pcs);
    PictureParentControlSet *ppcs = (PictureParentControlSet *)malloc(sizeof *ppcs);
    ModeDecisionContext *ctx = (ModeDecisionContext *)malloc(sizeof *ctx);
    EbObjectWrapper *w = (EbObjectWrapper *)malloc(sizeof *w);
    BlockGeom *g = (BlockGeom *)malloc(sizeof *g);
    ModeDecisionCandidate *cand = (ModeDecisionCandidate *)malloc(sizeof(ModeDecisionCandidate) * 12);
    V_ASSUME(scs && pcs && ppcs && ctx && w && g && cand);
    pcs->scs_wrapper_ptr = w; w->object_ptr = scs; pcs->parent_pcs_ptr = ppcs; ppcs->frm_hdr.reduced_tx_set = (uint8_t)vinbool();
    scs->static_config.disable_cfl_flag = (int)vin_range(-1, 1);
    ctx->blk_geom = g; g->bwidth = bdim[vin_range(0, 5)]; g->bheight = bdim[vin_range(0, 5)]; g->has_uv = (uint8_t)vinbool();
    g->bsize = (BlockSize)vin_range(0, BlockSizeS_ALL - 1); g->txsize_uv[0][0] = (TxSize)vin_range(0, TX_SIZES_ALL - 1);
    ctx->fast_candidate_array = cand; ctx->md_disable_cfl = (EbBool)vinbool(); ctx->chroma_level = (uint8_t)vin_range(0, 3);
    ctx->md_enable_paeth = PAETH; ctx->skip_intra = 0;   /* concrete per query (candidate indices stay concrete); skip_intra = 1 injects nothing */
    for (int i = 0; i <= UV_PAETH_PRED; i++) for (int j = 0; j < (MAX_ANGLE_DELTA << 1) + 1; j++) {
        /* the independent chroma search never selects CfL itself (it searches the modes below UV_CFL_PRED) */
        ctx->best_uv_mode[i][j] = (UvPredictionMode)vin_range(0, UV_PAETH_PRED); ctx->best_uv_angle[i][j] = (int32_t)vin_range(-3, 3); }
    uint32_t total = 0;
    inject_filter_intra_candidates(pcs, ctx, &total);
    uint32_t after_fi = total;
    inject_palette_candidates(pcs, ctx, &total);
    V_ASSERT(total <= 5 + NPAL && after_fi <= total, "candidate count within the injectors' bound");
    for (uint32_t i = 0; i < 5 + NPAL; i++) if (i < total) {
        if (scs->static_config.disable_cfl_flag == 1)
            V_ASSERT(cand[i].intra_chroma_mode != UV_CFL_PRED, "chroma-from-luma disabled by the configuration: no injected intra candidate uses the CfL chroma mode");
        if (ctx->md_disable_cfl || g->bwidth > 32 || g->bheight > 32)
            V_ASSERT(cand[i].intra_chroma_mode != UV_CFL_PRED, "CfL never offered where the block cannot use it");
    }
    V_END();
}
#ifndef VERIF_CBMC
int main(void) { harness(); puts("REPLAY-OK"); return 0; }
#endif
