/* C20: tool switches.  signal_derivation_pre_analysis_oq_scs (EbResourceCoordinationProcess.c) and
 * signal_derivation_multi_processes_oq (EbPictureDecisionProcess.c), both sliced by name: for every
 * configuration of the tool switches and every picture state (preset, slice type, temporal layer,
 * screen-content detection ...), a tool that the configuration turns OFF is OFF in the sequence-header /
 * frame-level control fields the encoder codes from. */
#include "verif.h"
#include "EbDefinitions.h"
#include "EbSequenceControlSet.h"
#include "EbPictureControlSet.h"
#include "EbPictureDecisionProcess.h"
#include <assert.h>
#include "c20_signals.inc"
void harness(void) {
    SequenceControlSet *scs = (SequenceControlSet *)malloc(sizeof *scs);
    PictureParentControlSet *pcs = (PictureParentControlSet *)malloc(sizeof *pcs);
    Av1Common *cm = (Av1Common *)malloc(sizeof *cm);
    V_ASSUME(scs && pcs && cm);
    EbSvtAv1EncConfiguration *c = &scs->static_config;
    /* tool switches over the ranges validation accepts */
    c->enable_intra_edge_filter = (int)vin_range(-1, 1); c->pic_based_rate_est = (int)vin_range(-1, 1);
    c->enable_restoration_filtering = (int)vin_range(-1, 1); c->cdef_level = (int)vin_range(-1, 4); c->enable_warped_motion = (int)vin_range(-1, 1);
    c->intrabc_mode = (int)vin_range(-1, 3); c->palette_level = (int32_t)vin_range(-1, 6); c->disable_dlf_flag = (EbBool)vinbool();
    c->sg_filter_mode = (int)vin_range(-1, 4); c->wn_filter_mode = (int)vin_range(-1, 3); c->frame_end_cdf_update = (int)vin_range(-1, 1);
    c->enable_global_motion = (EbBool)vinbool(); c->enc_mode = (int8_t)vin_range(0, 8); c->screen_content_mode = (uint32_t)vin_range(0, 2);
    c->tf_level = (int8_t)vin_range(-1, 3); c->enable_overlays = (EbBool)vinbool(); c->look_ahead_distance = (uint32_t)vin_range(0, 120); c->enable_tpl_la = (uint8_t)vinbool();
    c->rate_control_mode = (uint32_t)vin_range(0, 2); c->mrp_level = (int)vin_range(-1, 9);
    pcs->scs_ptr = scs; pcs->av1_cm = cm;
    pcs->enc_mode = (EbEncMode)vin_range(0, 8); pcs->slice_type = (EB_SLICE)vin_range(0, 2); pcs->sc_content_detected = (uint8_t)vinbool();
    pcs->temporal_layer_index = (uint8_t)vin_range(0, 5); pcs->is_used_as_reference_flag = (EbBool)vinbool(); pcs->hierarchical_levels = (uint8_t)vin_range(0, 5);
    pcs->input_resolution = (EbInputResolution)vin_range(0, 6); pcs->picture_number = vin64();
    signal_derivation_pre_analysis_oq_scs(scs);
#ifdef SEQ_ONLY
    /* sequence level only: every derived flag is a 0/1 value and the explicit settings are honoured in both directions */
    V_ASSERT(scs->seq_header.enable_restoration <= 1 && scs->seq_header.cdef_level <= 1 && scs->seq_header.enable_warped_motion <= 1 && scs->seq_header.enable_intra_edge_filter <= 1, "sequence-header tool flags are single bits");
    if (c->enable_restoration_filtering == 1) V_ASSERT(scs->seq_header.enable_restoration == 1, "loop restoration on when configured on");
    if (c->cdef_level > 0) V_ASSERT(scs->seq_header.cdef_level == 1, "CDEF on when configured on");
    if (c->enable_warped_motion == 1) V_ASSERT(scs->seq_header.enable_warped_motion == 1, "warped motion on when configured on");
#else
    signal_derivation_multi_processes_oq(scs, pcs, NULL);
#endif
    if (c->enable_restoration_filtering == 0) V_ASSERT(scs->seq_header.enable_restoration == 0, "loop restoration off in the sequence header when the configuration turns it off");
    if (c->cdef_level == 0) V_ASSERT(scs->seq_header.cdef_level == 0, "CDEF off in the sequence header when configured off");
#ifndef SEQ_ONLY
    if (c->cdef_level == 0) V_ASSERT(pcs->cdef_level == 0, "no frame uses CDEF when configured off");
#endif
    if (c->enable_warped_motion == 0) V_ASSERT(scs->seq_header.enable_warped_motion == 0, "warped motion off in the sequence header when configured off");
    if (c->enable_intra_edge_filter == 0) V_ASSERT(scs->seq_header.enable_intra_edge_filter == 0, "intra edge filter off when configured off");
#ifndef SEQ_ONLY
    if (c->intrabc_mode == 0) V_ASSERT(pcs->frm_hdr.allow_intrabc == 0, "no frame allows intra block copy when configured off");
    if (c->palette_level == 0) V_ASSERT(pcs->palette_level == 0, "no frame uses palette when configured off");
    if (c->disable_dlf_flag) V_ASSERT(pcs->loop_filter_mode == 0, "deblocking loop filter off for every frame when disabled");
    if (c->sg_filter_mode == 0) V_ASSERT(cm->sg_filter_mode == 0, "self-guided restoration off when configured off");
    if (c->wn_filter_mode == 0) V_ASSERT(cm->wn_filter_mode == 0, "Wiener restoration off when configured off");
    if (pcs->slice_type != I_SLICE) V_ASSERT(pcs->frm_hdr.allow_intrabc == 0, "intra block copy only on intra frames");
    V_ASSERT(pcs->palette_level >= 0 && pcs->palette_level < 7, "palette level in range");
#endif
    V_END();
}
#ifndef VERIF_CBMC
int main(void) { harness(); puts("REPLAY-OK"); return 0; }
#endif
