/* C20 (tile layout): real set_tile_info with svt_av1_get_tile_limits / svt_av1_calculate_tile_cols /
 * svt_av1_calculate_tile_rows (sliced by name from EbEntropyCoding.c) for every frame size 64..4096 x 64..2160,
 * both superblock sizes and every requested tile_rows (0..6) / tile_columns (0..4): the layout written to the
 * frame header is the requested one, limited only by the frame size (AV1 spec 5.9.15 limits, computed here
 * independently as ceil-log2 of the superblock counts). */
#include "verif.h"
#include "EbDefinitions.h"
#include "EbSequenceControlSet.h"
#include "EbPictureControlSet.h"
#include "EbBlockStructures.h"
#include "c20_tiles.inc"
static int ceil_log2_i(int n) { int k = 0; while ((1 << k) < n) k++; return k; }
void harness(void) {
    PictureParentControlSet *pcs = (PictureParentControlSet *)malloc(sizeof *pcs);
    Av1Common *cm = (Av1Common *)malloc(sizeof *cm);
    V_ASSUME(pcs && cm);
    pcs->av1_cm = cm;
    int w = (int)vin_range(64, 4096), h = (int)vin_range(64, 2160);
    int sb128 = vinbool();
    /* mi units of 4 samples; the encoder aligns the frame size to 8 samples (EbPictureControlSet.c) */
    cm->mi_cols = ((w + 7) >> 3) << 1; cm->mi_rows = ((h + 7) >> 3) << 1;
    pcs->log2_sb_sz = sb128 ? 5 : 4;
    pcs->log2_tile_rows = (uint8_t)vin_range(0, 6); pcs->log2_tile_cols = (uint8_t)vin_range(0, 4);
    set_tile_info(pcs);
    int sbs = sb128 ? 128 : 64;
    int sb_cols = (w + 7) / 8 * 8; sb_cols = (sb_cols + sbs - 1) / sbs;
    int sb_rows = (h + 7) / 8 * 8; sb_rows = (sb_rows + sbs - 1) / sbs;
    int max_rows_log2 = ceil_log2_i(sb_rows < 64 ? sb_rows : 64), max_cols_log2 = ceil_log2_i(sb_cols < 64 ? sb_cols : 64);
    int min_cols_log2 = 0; while (((4096 / sbs) << min_cols_log2) < sb_cols) min_cols_log2++;
    int want_rows = pcs->log2_tile_rows < max_rows_log2 ? pcs->log2_tile_rows : max_rows_log2;
    int want_cols = pcs->log2_tile_cols > min_cols_log2 ? pcs->log2_tile_cols : min_cols_log2; if (want_cols > max_cols_log2) want_cols = max_cols_log2;
    V_ASSERT(cm->log2_tile_rows == want_rows, "signalled log2 tile rows = requested value limited only by the number of superblock rows");
    V_ASSERT(cm->log2_tile_cols == want_cols, "signalled log2 tile columns = requested value limited only by the frame width in superblocks");
    int th = (sb_rows + (1 << want_rows) - 1) >> want_rows, tw = (sb_cols + (1 << want_cols) - 1) >> want_cols;
    V_ASSERT(cm->tiles_info.tile_rows == (sb_rows + th - 1) / th && cm->tiles_info.tile_cols == (sb_cols + tw - 1) / tw, "uniform tiles of the rounded-up size cover the frame");
    V_ASSERT(cm->tiles_info.tile_rows >= 1 && cm->tiles_info.tile_rows <= 64 && cm->tiles_info.tile_cols >= 1 && cm->tiles_info.tile_cols <= 64, "tile counts within AV1 limits");
    V_ASSERT(cm->tiles_info.tile_row_start_mi[0] == 0 && cm->tiles_info.tile_row_start_mi[cm->tiles_info.tile_rows] == (sb_rows << pcs->log2_sb_sz), "tile rows start at 0 and end at the aligned frame height");
    V_ASSERT(cm->tiles_info.tile_col_start_mi[0] == 0 && cm->tiles_info.tile_col_start_mi[cm->tiles_info.tile_cols] == (sb_cols << pcs->log2_sb_sz), "tile columns start at 0 and end at the aligned frame width");
    V_END();
}
#ifndef VERIF_CBMC
int main(void) { harness(); puts("REPLAY-OK"); return 0; }
#endif
