/* C13: the defaults written by svt_svt_enc_init_parameter are a function of nothing:
 * two runs on two arbitrary prior contents end in field-wise identical structs (2-safety),
 * and the defaults (plus a valid picture size) pass parameter validation. */
#include "verif.h"
#include "common/enc_handle.h"

#ifdef VERIF_CBMC
#define ARB_OBJ(o, byte) /* uninitialised automatic object: nondeterministic in CBMC */
#else
#define ARB_OBJ(o, byte) memset(&(o), (byte), sizeof(o))
#endif

#if MODE == 1
void harness(void) {
    EbSvtAv1EncConfiguration a, b;
    ARB_OBJ(a, 0x00); ARB_OBJ(b, 0xFF);
    EbErrorType ra = svt_svt_enc_init_parameter(&a);
    EbErrorType rb = svt_svt_enc_init_parameter(&b);
    V_ASSERT(ra == EB_ErrorNone && rb == EB_ErrorNone, "defaults load succeeds");
#define FIELD(f) V_ASSERT(memcmp(&a.f, &b.f, sizeof(a.f)) == 0, "default of " #f " is determined by the library, not by prior memory");
#include "c13_fields.inc"
    V_END();
}
#else
static SequenceControlSet scs;
void harness(void) {
    EbSvtAv1EncConfiguration a;
    ARB_OBJ(a, 0xFF);
    svt_svt_enc_init_parameter(&a);
    a.source_width  = (uint32_t)vin_range(64, 4096);
    a.source_height = (uint32_t)vin_range(64, 2160);
    V_ASSUME(a.source_width % 2 == 0 && a.source_height % 2 == 0);
    copy_api_from_app(&scs, &a);
    EbErrorType r = verify_settings(&scs);
    V_ASSERT(r == EB_ErrorNone, "library defaults plus a valid picture size are accepted by validation");
    V_END();
}
#endif
#ifndef VERIF_CBMC
int main(void) { harness(); puts("REPLAY-OK"); return 0; }
#endif
