/* C19: intra-refresh placement.  The statements of picture_decision_kernel that set cra/idr flags from
 * intra_period_position and advance the position are sliced verbatim (c19_step.inc); is_delayed_intra is
 * sliced by name.  Inductive step from an arbitrary picture k>=1 with the invariant
 *   intra_period_position == (k-1) mod (P+1)
 * (base case: picture 0 leaves position 0 -- the I_SLICE branch resets it for picture_number 0). */
#include "verif.h"
#include "EbDefinitions.h"
#include "EbSequenceControlSet.h"
#include "EbPictureControlSet.h"
#include "EbEncodeContext.h"
#include "EbPictureDecisionProcess.h"
#include "c19_step.inc"   /* static void intra_step(SequenceControlSet*, EncodeContext*, PictureParentControlSet*); EbBool is_delayed_intra(PictureParentControlSet*) */

void step(void) {
    SequenceControlSet *scs = (SequenceControlSet *)malloc(sizeof *scs);
    EncodeContext *ec = (EncodeContext *)malloc(sizeof *ec);
    PictureParentControlSet *pcs = (PictureParentControlSet *)malloc(sizeof *pcs);
    V_ASSUME(scs && ec && pcs);
    int32_t P = (int32_t)vin_range(-1, 1 << 30);
    /* display position k >= 1 is represented by its residue r = k mod (P+1) (and k != 0); no other property of k is read by the block */
    uint32_t r = (uint32_t)vin32();
    if (P >= 0) V_ASSUME(r <= (uint32_t)P);
    uint64_t k = 1 + (uint64_t)vin32();
    scs->intra_period_length = P; scs->static_config.intra_period_length = P;
    scs->intra_refresh_type = vinbool() ? IDR_REFRESH : CRA_REFRESH;
    scs->static_config.rate_control_mode = (uint32_t)vin_range(0, 2);
    pcs->picture_number = k; pcs->cra_flag = EB_FALSE; pcs->idr_flag = EB_FALSE;     /* as reset by resource coordination for every picture but the first */
    pcs->scene_change_flag = EB_FALSE;                                                  /* scene change detection off (default) */
    pcs->end_of_sequence_flag = (EbBool)vinbool();
    ec->pre_assignment_buffer_eos_flag = 0; ec->pre_assignment_buffer_intra_count = 0; ec->pre_assignment_buffer_idr_count = 0; ec->pre_assignment_buffer_count = 0;
    if (P >= 0) ec->intra_period_position = (r == 0) ? (uint32_t)P : r - 1; else ec->intra_period_position = (uint32_t)vin32();
    intra_step(scs, ec, pcs);
    int intra = pcs->cra_flag || pcs->idr_flag;
    if (P == -1) V_ASSERT(!intra, "no intra refresh after position 0 when the intra period is -1");
    else if (P == 0) V_ASSERT(intra, "every picture intra when the intra period is 0");
    else {
        V_ASSERT(intra == (r == 0), "intra pictures exactly at display positions that are multiples of P+1");
        if (intra) V_ASSERT((scs->intra_refresh_type == IDR_REFRESH) ? pcs->idr_flag : pcs->cra_flag, "refresh type selects IDR (key frame) or CRA");
        V_ASSERT(ec->intra_period_position == r, "position invariant re-established for picture k+1");
    }
    V_ASSERT(ec->pre_assignment_buffer_intra_count == (uint32_t)intra && ec->pre_assignment_buffer_count == 1, "pre-assignment counters updated");
    V_END();
}
void delayed(void) {
    SequenceControlSet *scs = (SequenceControlSet *)malloc(sizeof *scs);
    PictureParentControlSet *pcs = (PictureParentControlSet *)malloc(sizeof *pcs);
    PredictionStructure *ps = (PredictionStructure *)malloc(sizeof *ps);
    V_ASSUME(scs && pcs && ps);
    pcs->scs_ptr = scs; pcs->pred_struct_ptr = ps;
    scs->static_config.intra_period_length = (int32_t)vin_range(-1, 300);
    pcs->idr_flag = (EbBool)vinbool(); pcs->cra_flag = (EbBool)vinbool(); pcs->end_of_sequence_flag = (EbBool)vinbool();
    pcs->pre_assignment_buffer_count = (uint32_t)vin_range(1, 32); ps->pred_struct_period = (uint32_t)vin_range(1, 32);
    EbBool d = is_delayed_intra(pcs);
    if (pcs->end_of_sequence_flag) V_ASSERT(!d, "the last picture of the stream is never held back waiting for a following mini-GOP");
    if (!pcs->idr_flag && !pcs->cra_flag) V_ASSERT(!d, "only intra pictures are delayed");
    if (scs->static_config.intra_period_length == 0) V_ASSERT(!d, "all-intra streams do not delay");
    V_END();
}
#ifndef VERIF_CBMC
int main(void) { V_ENTRY(); puts("REPLAY-OK"); return 0; }
#endif
