/* C17: process-global state written by per-instance initialisation.
 * MODE 1: build_blk_geom (EbUtility.c), called from every svt_av1_enc_init with the instance's superblock size,
 *         rebuilds the global block-geometry tables in place.
 * MODE 2: setup_common_rtcd_internal (common_dsp_rtcd.c), called from every encoder/decoder init with the
 *         instance's use_cpu_flags, rewrites the global kernel dispatch table. */
#include "verif.h"
#if MODE == 1
#include "EbDefinitions.h"
#include "EbUtility.h"
/* the globals and build_blk_geom itself are sliced from EbUtility.c (the file's large constant tables are not needed);
   the table builders it calls are arbitrary-effect stubs in the solver query */
#include "EbLog.h"
#include "c17_geom.inc"
/* table builders: their effect on the big tables is not the subject here (they fill blk_geom_mds for the geometry just selected) */
uint32_t count_total_num_of_active_blks(void) { return (uint32_t)vin32(); }
void depth_scan_all_blks(void) {}
void md_scan_all_blks(uint32_t *idx_mds, uint32_t sq_size, uint32_t x, uint32_t y, int32_t is_last_quadrant, uint8_t quad_it) { (void)idx_mds; (void)sq_size; (void)x; (void)y; (void)is_last_quadrant; (void)quad_it; }
void finish_depth_scan_all_blks(void) {}
void log_redundancy_similarity(uint32_t max_block_count) { (void)max_block_count; }
void harness(void) {
    int a = vinbool(), b = vinbool();
    build_blk_geom(a);                         /* instance A initialises */
    uint32_t sb_a = max_sb, depth_a = max_depth;
    build_blk_geom(b);                         /* instance B (possibly another superblock size) initialises */
    V_ASSERT(max_sb == sb_a && max_depth == depth_a, "block-geometry globals built for one encoder instance are unchanged when another instance initialises");
    V_END();
}
#else
#include "Source/Lib/Common/Codec/common_dsp_rtcd.c"
bool cpuinfo_initialize(void) { return true; }
void harness(void) {
    CPU_FLAGS fa = (CPU_FLAGS)vin64(), fb = (CPU_FLAGS)vin64();
    setup_common_rtcd_internal(fa);            /* instance A, e.g. restricted to C kernels */
    void *blend_a = (void *)svt_aom_blend_a64_mask, *copy_a = (void *)svt_av1_inv_txfm2d_add_4x4;
    setup_common_rtcd_internal(fb);            /* instance B with another instruction-set limit */
    V_ASSERT((void *)svt_aom_blend_a64_mask == blend_a && (void *)svt_av1_inv_txfm2d_add_4x4 == copy_a, "kernel dispatch chosen for one instance is unchanged when another instance initialises with different CPU flags");
    V_END();
}
#endif
#ifndef VERIF_CBMC
int main(void) { harness(); puts("REPLAY-OK"); return 0; }
#endif
