/* C17 (per-instance prediction-structure tables): the initial part of prediction_structure_group_ctor (sliced
 * verbatim up to "// Count the number of Prediction Structures") with the real config-array constructor of the
 * same translation unit.  The constructor customises the default tables for the instance's preset and manual
 * prediction structure: it must do so on the instance's private copy, never on the process-wide default tables
 * (which every other instance reads). */
#include "verif.h"
#define V_SYNC_POOL 4
#include "common/threads_model.h"
#include "EbDefinitions.h"
#include "EbObject.h"
#include "EbMalloc.h"
void svt_print_alloc_fail(const char *f, int l) { (void)f; (void)l; }
void svt_memcpy_app(void *d, const void *s, size_t n) { memcpy(d, s, n); }   /* EbUtility.c:svt_memcpy_app is a memcpy wrapper */
#include "Source/Lib/Encoder/Codec/EbPredictionStructure.c"
#include "c17_psg_prefix.inc"   /* static EbErrorType psg_ctor_prefix(PredictionStructureGroup*, EbEncMode, EbSvtAv1EncConfiguration*) */
#define NT 6
#ifndef MANUAL
#define MANUAL 0
#define HL 3
#define EN 1
#endif
void harness(void) {
    static PredictionStructureConfigEntry snap[NT][32];
    for (int t = 0; t < NT; t++) {
        const PredictionStructureConfig *s = &g_prediction_structure_config_array[t];
        V_ASSERT(s->entry_count >= 1 && s->entry_count <= 32, "default table sizes as expected by the harness");
        for (uint32_t i = 0; i < 32; i++) if (i < s->entry_count) snap[t][i] = s->entry_array[i];
    }
    PredictionStructureGroup *g = (PredictionStructureGroup *)calloc(1, sizeof *g);
    EbSvtAv1EncConfiguration *cfg = (EbSvtAv1EncConfiguration *)malloc(sizeof *cfg);
    V_ASSUME(g && cfg);
    EbEncMode mode = (EbEncMode)vin_range(0, 13);
    /* manual structure geometry is concrete per query (a symbolic copy size into a symbolic table makes the query run out of memory) */
    cfg->enable_manual_pred_struct = (EbBool)MANUAL;
    cfg->hierarchical_levels = HL;
    cfg->manual_pred_struct_entry_num = EN;   /* 1..(1<<HL), validated by svt_av1_verify_settings / set_parameter (C12) */
    for (int i = 0; i < 4; i++) { cfg->pred_struct[i].ref_list0[0] = (int32_t)vin_range(-8, 8); cfg->pred_struct[i].ref_list1[0] = (int32_t)vin_range(-8, 8); cfg->pred_struct[i].temporal_layer_index = (uint32_t)vin_range(0, 5); cfg->pred_struct[i].decode_order = (uint32_t)vin_range(0, 3); }
    EbErrorType e = psg_ctor_prefix(g, mode, cfg);
    V_ASSUME(e == EB_ErrorNone);
    for (int t = 0; t < NT; t++) {
        const PredictionStructureConfig *s = &g_prediction_structure_config_array[t];
        PredictionStructureConfig *d = &((PredictionStructureConfigArray *)g->priv)->prediction_structure_config_array[t];
#ifdef VERIF_CBMC
        V_ASSERT(!__CPROVER_same_object(d->entry_array, s->entry_array), "the instance works on its own copy of the default prediction-structure table");
#endif
        for (uint32_t i = 0; i < 32; i++) if (i < s->entry_count)
            V_ASSERT(memcmp(&snap[t][i], &s->entry_array[i], sizeof snap[t][i]) == 0, "process-wide default prediction-structure tables are not modified by instance construction");
    }
    V_END();
}
#ifndef VERIF_CBMC
int main(void) { harness(); puts("REPLAY-OK"); return 0; }
#endif
