/* C17 (per-instance encode context): real encode_context_ctor (EbEncodeContext.c included as a translation unit) is run
 * for two encoder instances.  Every pointer the constructor stores in the context must refer to storage of that
 * instance: no pointer field of instance B may refer to the same object as the corresponding field of instance A,
 * and none may refer to static storage (the rate-control tables, reorder queues and statistics buffers are adaptively
 * rewritten by the instance's own threads under the instance's own mutexes).
 * Queue depths are scaled down (the constructor is parametric in the *_MAX_DEPTH macros); entry constructors of other
 * translation units and rate_control_tables_init are stubs (their content is not the subject). */
#include "verif.h"
#define V_SYNC_POOL 16
#include "common/threads_model.h"
#include "EbDefinitions.h"
#include "EbObject.h"
#include "EbMalloc.h"
#include "EbEncodeContext.h"
void svt_print_alloc_fail(const char *f, int l) { (void)f; (void)l; }
#undef PICTURE_DECISION_REORDER_QUEUE_MAX_DEPTH
#undef PRE_ASSIGNMENT_MAX_DEPTH
#undef INPUT_QUEUE_MAX_DEPTH
#undef REFERENCE_QUEUE_MAX_DEPTH
#undef PICTURE_DECISION_PA_REFERENCE_QUEUE_MAX_DEPTH
#undef INITIAL_RATE_CONTROL_REORDER_QUEUE_MAX_DEPTH
#undef HIGH_LEVEL_RATE_CONTROL_HISTOGRAM_QUEUE_MAX_DEPTH
#undef PACKETIZATION_REORDER_QUEUE_MAX_DEPTH
#define PICTURE_DECISION_REORDER_QUEUE_MAX_DEPTH 2
#define PRE_ASSIGNMENT_MAX_DEPTH 2
#define INPUT_QUEUE_MAX_DEPTH 2
#define REFERENCE_QUEUE_MAX_DEPTH 2
#define PICTURE_DECISION_PA_REFERENCE_QUEUE_MAX_DEPTH 2
#define INITIAL_RATE_CONTROL_REORDER_QUEUE_MAX_DEPTH 2
#define HIGH_LEVEL_RATE_CONTROL_HISTOGRAM_QUEUE_MAX_DEPTH 2
#define PACKETIZATION_REORDER_QUEUE_MAX_DEPTH 2
/* entry constructors / table initialiser of other translation units: content is not the subject */
#define ENTRY_CTOR(name, T, ...) EbErrorType name(T *p, ##__VA_ARGS__) { (void)p; return EB_ErrorNone; }
ENTRY_CTOR(picture_decision_reorder_entry_ctor, PictureDecisionReorderEntry, uint32_t n)
ENTRY_CTOR(input_queue_entry_ctor, InputQueueEntry)
ENTRY_CTOR(reference_queue_entry_ctor, ReferenceQueueEntry)
ENTRY_CTOR(dep_cnt_queue_entry_ctor, PicQueueEntry)
ENTRY_CTOR(pa_reference_queue_entry_ctor, PaReferenceQueueEntry)
ENTRY_CTOR(initial_rate_control_reorder_entry_ctor, InitialRateControlReorderEntry, uint32_t n)
ENTRY_CTOR(hl_rate_control_histogram_entry_ctor, HlRateControlHistogramEntry, uint32_t n)
ENTRY_CTOR(packetization_reorder_entry_ctor, PacketizationReorderEntry, uint32_t n)
EbErrorType rate_control_tables_init(RateControlTables *t) { (void)t; return EB_ErrorNone; }
void svt_av1_twopass_zero_stats(FIRSTPASS_STATS *section) { (void)section; }
#include "Source/Lib/Encoder/Codec/EbEncodeContext.c"
#ifdef VERIF_CBMC
#define FRESH(pa, pb, what) do { if ((pb) != NULL) { V_ASSERT(!__CPROVER_same_object((const void *)(pa), (const void *)(pb)), "instances do not share " what); V_ASSERT(__CPROVER_DYNAMIC_OBJECT((const void *)(pb)), what " of an instance is heap storage of that instance, not static storage"); } } while (0)
#else
#define FRESH(pa, pb, what) do { if ((pb) != NULL) V_ASSERT((const void *)(pa) != (const void *)(pb), "instances do not share " what); } while (0)
#endif
void harness(void) {
    EncodeContext *a = (EncodeContext *)calloc(1, sizeof *a), *b = (EncodeContext *)calloc(1, sizeof *b);
    V_ASSUME(a && b);
    EbErrorType ea = encode_context_ctor(a, NULL), eb = encode_context_ctor(b, NULL);
    V_ASSUME(ea == EB_ErrorNone && eb == EB_ErrorNone);
#include "c17_ctx_fields.inc"
    V_END();
}
#ifndef VERIF_CBMC
int main(void) { harness(); puts("REPLAY-OK"); return 0; }
#endif
