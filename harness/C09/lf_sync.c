/* C09 (decoder multi-thread loop-filter wavefront): the "Top-Right Sync" block and the completion update of
 * dec_loop_filter_row (EbDecLF.c), sliced verbatim (spin-wait turned into a test), under a symbolic schedule of
 * one worker per superblock row of a tile.  Monitor: a superblock is reconstructed only after the superblocks above and
 * above-right (inside the tile) are reconstructed -- intra prediction and CDF/neighbour context read them. */
#include "verif.h"
#include <stdint.h>
#ifndef MIN
#define MIN(a, b) ((a) < (b) ? (a) : (b))
#endif
#ifndef PW
#define PW 1
#endif
#ifndef PR
#define PR 3
#endif
static int32_t completed[PR]; static int col[PR]; static int done[PR][PW + 1];
#include "c09_lf_sync.inc"
/* static int recon_sync_try(int32_t sb_row_in_tile, int32_t sb_col, int32_t tile_wd_in_sb, volatile int32_t *sb_completed_in_prev_row);
   static void recon_mark_done(int32_t sb_col, uint32_t *sb_completed_in_row); */
void harness(void) {
    for (int r = 0; r < PR; r++) { completed[r] = -1; col[r] = 0;   /* memset(.., -1, ..) in svt_av1_queue_lf_jobs */ }
    for (int s = 0; s < PR * PW; s++) {
        int r = (int)vin_range(0, PR - 1);
        V_ASSUME(col[r] < PW);
        int c = col[r];
        int ok = lf_sync_try((uint32_t)r, c, PW, r ? (volatile int32_t *)&completed[r - 1] : NULL);
        if (r && col[r - 1] == PW) V_ASSERT(ok, "a row whose upper row is complete is never blocked (no deadlock)");
        V_ASSUME(ok);
        if (r) {
            V_ASSERT(done[r - 1][c], "a superblock is loop-filtered only after the superblock above it");
            if (c + 1 < PW) V_ASSERT(done[r - 1][c + 1], "... and after the above-right superblock");
        }
        done[r][c] = 1;
        lf_mark_done(c, (int32_t *)&completed[r]);
        col[r] = c + 1;
    }
    for (int r = 0; r < PR; r++) V_ASSERT(col[r] == PW, "all rows complete");
    V_END();
}
#ifndef VERIF_CBMC
int main(void) { harness(); puts("REPLAY-OK"); return 0; }
#endif
