/* C09 (decoder multi-thread CDEF wavefront): the row-to-row synchronisation statements of svt_cdef_sb_row_mt
 * (EbDecCdef.c) are sliced verbatim -- the "Top-Right Sync" block in front of each superblock (its spin-wait turned into
 * a non-blocking test: `while (C) ;` becomes `if (C) return 0;`) and the completion-counter update behind it -- and run
 * under a symbolic schedule: every step the solver picks any superblock row whose wait is satisfied.  Monitor: a
 * superblock is filtered only after the superblock above it and the one above-right have been filtered (the dependency
 * the code's own comments name); progress: a row whose upper row is complete is never blocked. */
#include "verif.h"
#include <stdint.h>
#ifndef PW
#define PW 1
#endif
#ifndef PR
#define PR 3
#endif
static uint32_t completed[PR];          /* dec_mt_frame_data->cdef_completed_in_row, zeroed per frame by the real code (memset) */
static uint32_t nsync_of[PR];           /* the function-local nsync of the thread working on that row */
static int col[PR]; static int done[PR][PW + 1];
#include "c09_cdef_sync.inc"
/* static int cdef_sync_try(int32_t sb_fbr, int32_t sb_fbc, int32_t pic_width_in_sb, uint32_t *nsync_p, volatile uint32_t *cdef_completed_in_prev_row);
   static void cdef_mark_done(int32_t sb_fbc, uint32_t *cdef_completed_in_row); */
void harness(void) {
    for (int r = 0; r < PR; r++) { completed[r] = 0; nsync_of[r] = 1; col[r] = 0; }
    for (int s = 0; s < PR * PW; s++) {
        int r = (int)vin_range(0, PR - 1);
        V_ASSUME(col[r] < PW);
        int c = col[r];
        uint32_t ns = nsync_of[r];
        int ok = cdef_sync_try(r, c, PW, &ns, r ? (volatile uint32_t *)&completed[r - 1] : NULL);
        if (r && col[r - 1] == PW) V_ASSERT(ok, "a row whose upper row is complete is never blocked (no deadlock)");
        V_ASSUME(ok);                    /* the scheduler runs only threads whose spin-wait has ended */
        nsync_of[r] = ns;
        if (r) {
            V_ASSERT(done[r - 1][c], "CDEF of a superblock starts only after the superblock above it has been filtered");
            if (c + 1 < PW) V_ASSERT(done[r - 1][c + 1], "... and after the above-right superblock has been filtered");
        }
        done[r][c] = 1;
        cdef_mark_done(c, &completed[r]);
        col[r] = c + 1;
    }
    for (int r = 0; r < PR; r++) V_ASSERT(col[r] == PW, "all rows complete");
    V_END();
}
#ifndef VERIF_CBMC
int main(void) { harness(); puts("REPLAY-OK"); return 0; }
#endif
