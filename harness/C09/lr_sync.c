/* C09 (decoder multi-thread loop-restoration wavefront): the "Top-Right Sync" block and the completion update of
 * dec_av1_loop_restoration_filter_row (EbDecRestoration.c), sliced verbatim (spin-wait turned into a test), under a symbolic
 * schedule of one worker per superblock row.  Columns are 64-sample processing units. */
#include "verif.h"
#include <stdint.h>
typedef uint8_t EbBool;
#ifndef PW
#define PW 1
#endif
#ifndef PR
#define PR 3
#endif
#define UNIT 64
static int32_t completed[PR]; static int32_t nsync_of[PR]; static int col[PR]; static int done[PR][PW + 1];
#include "c09_lr_sync.inc"
/* static int lr_sync_try(EbBool is_mt, int32_t sb_row, int col_y, int tile_w_y, int w_y, int sb_col_y, int32_t *nsync_p, volatile int32_t *sb_lr_completed_in_prev_row);
   static void lr_mark_done(int sb_col_y, int32_t *sb_lr_completed_in_row); */
void harness(void) {
    int tile_w = (int)vin_range((PW - 1) * UNIT + 1, PW * UNIT);          /* any width that needs PW units */
    for (int r = 0; r < PR; r++) { completed[r] = -1; nsync_of[r] = 1; col[r] = 0; }   /* memset(.., -1, ..) in svt_av1_queue_lr_jobs */
    for (int s = 0; s < PR * PW; s++) {
        int r = (int)vin_range(0, PR - 1);
        V_ASSUME(col[r] < PW);
        int c = col[r]; int col_y = c * UNIT; int rem = tile_w - col_y; int w_y = rem < UNIT ? rem : UNIT;
        int32_t ns = nsync_of[r];
        int ok = lr_sync_try(1, r, col_y, tile_w, w_y, c, &ns, r ? (volatile int32_t *)&completed[r - 1] : NULL);
        if (r && col[r - 1] == PW) V_ASSERT(ok, "a row whose upper row is complete is never blocked (no deadlock)");
        V_ASSUME(ok);
        nsync_of[r] = ns;
        if (r) {
            V_ASSERT(done[r - 1][c], "a restoration unit column starts only after the one above it is finished");
            if (c + 1 < PW) V_ASSERT(done[r - 1][c + 1], "... and after the above-right one is finished");
        }
        done[r][c] = 1;
        lr_mark_done(c, &completed[r]);
        col[r] = c + 1;
    }
    for (int r = 0; r < PR; r++) V_ASSERT(col[r] == PW, "all rows complete");
    V_END();
}
#ifndef VERIF_CBMC
int main(void) { harness(); puts("REPLAY-OK"); return 0; }
#endif
