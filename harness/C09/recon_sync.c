/* C09 (decoder multi-thread reconstruction wavefront): the "Top-Right Sync" block and the completion update of
 * decode_tile_row (EbDecProcessFrame.c), sliced verbatim (spin-wait turned into a test), under a symbolic schedule of
 * one worker per superblock row of a tile.  Monitor: a superblock is reconstructed only after the superblocks above and
 * above-right (inside the tile) are reconstructed -- intra prediction and CDF/neighbour context read them. */
#include "verif.h"
#include <stdint.h>
#ifdef EDGE   /* variant: the tile width is computed by the real statement from a frame whose last superblock is partial */
#include "EbDefinitions.h"
#include "EbSvtAv1Dec.h"
#include "EbDecHandle.h"
#include "EbDecProcess.h"
#include "EbDecProcessFrame.h"
#endif
#ifndef MIN
#define MIN(a, b) ((a) < (b) ? (a) : (b))
#endif
#ifndef PW
#define PW 1
#endif
#ifndef PR
#define PR 3
#endif
static uint32_t completed[PR]; static int col[PR]; static int done[PR][PW + 1];
#include "c09_recon_sync.inc"
/* static int recon_sync_try(int32_t sb_row_in_tile, int32_t sb_col, int32_t tile_wd_in_sb, volatile int32_t *sb_completed_in_prev_row);
   static void recon_mark_done(int32_t sb_col, uint32_t *sb_completed_in_row); */
void harness(void) {
    for (int r = 0; r < PR; r++) { completed[r] = 0; col[r] = 0; }
    int32_t wd = PW;
#ifdef EDGE
    {   /* a tile starting at column 0 that covers PW superblock columns, the last one possibly partial */
        EbDecHandle *h = (EbDecHandle *)malloc(sizeof *h); TilesInfo *ti = (TilesInfo *)malloc(sizeof *ti); DecModCtxt *dm = (DecModCtxt *)malloc(sizeof *dm); SeqHeader *sq = (SeqHeader *)malloc(sizeof *sq);
        V_ASSUME(h && ti && dm && sq);
        int32_t sbl = (int32_t)vin_range(6, 7), sb_mi = 1 << (sbl - MI_SIZE_LOG2);
        int32_t mi_cols = (PW - 1) * sb_mi + (int32_t)vin_range(1, 32); V_ASSUME(mi_cols <= PW * sb_mi);
        dm->seq_header = sq; dm->dec_handle_ptr = h; sq->sb_size_log2 = (uint8_t)sbl; sq->sb_mi_size = (uint8_t)sb_mi;
        h->frame_header.mi_cols = (uint32_t)mi_cols;
        ti->tile_col_start_mi[0] = 0; ti->tile_col_start_mi[1] = vinbool() ? (uint16_t)mi_cols : (uint16_t)(PW * sb_mi);
        /* the row worker visits ceil(tile end / superblock) columns: that is PW by construction */
        wd = recon_tile_wd(dm, ti, 0, h, sbl - MI_SIZE_LOG2);
    }
#endif
    for (int s = 0; s < PR * PW; s++) {
        int r = (int)vin_range(0, PR - 1);
        V_ASSUME(col[r] < PW);
        int c = col[r];
        int ok = recon_sync_try(r, c, wd, r ? (volatile int32_t *)&completed[r - 1] : NULL);
        if (r && col[r - 1] == PW) V_ASSERT(ok, "a row whose upper row is complete is never blocked (no deadlock)");
        V_ASSUME(ok);
        if (r) {
            V_ASSERT(done[r - 1][c], "a superblock is reconstructed only after the superblock above it");
            if (c + 1 < PW) V_ASSERT(done[r - 1][c + 1], "... and after the above-right superblock");
        }
        done[r][c] = 1;
        recon_mark_done(c, &completed[r]);
        col[r] = c + 1;
    }
    for (int r = 0; r < PR; r++) V_ASSERT(col[r] == PW, "all rows complete");
    V_END();
}
#ifndef VERIF_CBMC
int main(void) { harness(); puts("REPLAY-OK"); return 0; }
#endif
