/* C09 (multi-threaded decoder, once-per-frame loop-filter table initialisation): the block of
 * dec_av1_loop_filter_frame_mt (EbDecProcess.c) in which the first thread that reaches the loop-filter stage builds the
 * frame-level filter tables, sliced verbatim.  Two threads execute the block; at every mutex operation of one thread the
 * solver may let the other thread run its whole block (nested scheduling).  Monitor: no thread leaves the block (and
 * starts filtering superblock rows) before the tables of this frame are complete. */
#include "verif.h"
#include "EbDefinitions.h"
#include "EbSvtAv1Dec.h"
#include "EbDecHandle.h"
#include "EbDecProcess.h"
#include "EbDecProcessFrame.h"
#include "EbDecLF.h"
static int held, tables_ready, in_init, other_started;
static void run_thread(int id);
static void maybe_switch(void) { if (!other_started && vinbool()) { other_started = 1; run_thread(1); } }
EbErrorType svt_block_on_mutex(EbHandle m) { (void)m; maybe_switch(); V_ASSUME(!held); held = 1; return EB_ErrorNone; }   /* a thread that finds the mutex taken does not proceed */
EbErrorType svt_release_mutex(EbHandle m) { (void)m; V_ASSERT(held, "unlock of a held mutex"); held = 0; maybe_switch(); return EB_ErrorNone; }
void svt_av1_loop_filter_frame_init(FrameHeader *frm_hdr, LoopFilterInfoN *lfi, int32_t plane_start, int32_t plane_end) {
    (void)frm_hdr; (void)lfi; (void)plane_start; (void)plane_end;
    in_init = 1; maybe_switch(); in_init = 0;      /* building the tables takes time: the other thread may run meanwhile */
    tables_ready = 1;
}
static EbDecHandle *H; static LfCtxt *LF; static DecMtFrameData *FD;
#include "c09_lf_init.inc"   /* static void lf_init_block(EbDecHandle *dec_handle, LfCtxt *lf_ctxt, DecMtFrameData *dec_mt_frame_data1, int32_t plane_start, int32_t plane_end) */
static void run_thread(int id) {
    (void)id;
    lf_init_block(H, LF, FD, 0, 3);
    V_ASSERT(tables_ready, "a thread starts loop-filtering superblock rows only after this frame's filter tables are complete");
}
void harness(void) {
    H = (EbDecHandle *)malloc(sizeof *H); LF = (LfCtxt *)malloc(sizeof *LF); V_ASSUME(H && LF);
    FD = &H->main_frame_buf.cur_frame_bufs[0].dec_mt_frame_data;
    FD->lf_frame_info.lf_info_init_done = EB_FALSE;    /* reset per frame by svt_av1_queue_lf_jobs */
    FD->lf_frame_info.lf_sb_row_info.sbrow_mutex = (EbHandle)(uintptr_t)1;
    H->main_frame_buf.sb_cols = (int32_t)vin_range(1, 8);
    run_thread(0);
    if (!other_started) { other_started = 1; run_thread(1); }
    V_END();
}
#ifndef VERIF_CBMC
int main(void) { harness(); puts("REPLAY-OK"); return 0; }
#endif
