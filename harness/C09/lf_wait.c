/* C09 (multi-threaded decoder, hand-off reconstruction -> loop-filter stage): before a thread loop-filters superblock row R
 * and then saves the loop-restoration context of stripe R-1 (dec_save_lf_boundary_lines_sb_row(R-1): the two context
 * lines above that stripe are lines 64(R-1)-10 and -9, i.e. the last lines of superblock row R-2), it spins on the
 * per-row reconstruction-complete map.  The wait block of dec_av1_loop_filter_frame_mt is sliced verbatim (one evaluation
 * of the spin loop's body, then its condition).  For an ARBITRARY completion map: if the wait ends, every row the
 * stage is about to read or modify must be completely reconstructed in every tile column. */
#include "verif.h"
#include "EbDefinitions.h"
#include "EbSvtAv1Dec.h"
#include "EbDecHandle.h"
#include "EbDecProcess.h"
#define MAXR 6
#define MAXC 3
#include "c09_lf_wait.inc"   /* static int lf_stage_wait_over(int32_t sb_row, TilesInfo *tiles_info, DecMtFrameData *dec_mt_frame_data) */
void harness(void) {
    TilesInfo *ti = (TilesInfo *)malloc(sizeof *ti); DecMtFrameData *fd = (DecMtFrameData *)malloc(sizeof *fd);
    uint32_t *map = (uint32_t *)malloc(sizeof(uint32_t) * MAXR * MAXC);
    V_ASSUME(ti && fd && map);
    int rows = (int)vin_range(1, MAXR), tc = (int)vin_range(1, MAXC);
    ti->tile_cols = (uint8_t)tc; fd->sb_rows = rows; fd->sb_recon_row_map = map;
    for (int i = 0; i < MAXR * MAXC; i++) map[i] = (uint32_t)vinbool();     /* any state of the reconstruction stage (tiles progress independently) */
    int r = (int)vin_range(0, rows - 1);
    if (lf_stage_wait_over(r, ti, fd)) {
        for (int d = -2; d <= 1; d++) { int rr = r + d; if (rr < 0 || rr >= rows) continue;
            for (int c = 0; c < MAXC; c++) if (c < tc)
                V_ASSERT(map[rr * tc + c], "when the loop-filter stage starts on row R, rows R-2 .. R+1 are completely reconstructed (R-2: its last lines are saved as loop-restoration context; R-1, R: filtered; R+1: CDEF border)"); }
    }
    V_END();
}
#ifndef VERIF_CBMC
int main(void) { harness(); puts("REPLAY-OK"); return 0; }
#endif
