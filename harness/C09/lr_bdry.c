/* C09 (multi-threaded decoder, loop-restoration context): in the multi-threaded pipeline the deblocked context lines of
 * every restoration stripe are saved superblock row by superblock row (dec_save_lf_boundary_lines_sb_row, EbDecProcess.c,
 * sliced by name) before CDEF overwrites the pixels.  The real function runs for every superblock row of a frame of
 * arbitrary height; the real save_deblock_boundary_lines is replaced by a recorder.  Every stripe of the frame
 * (stripes are 64 rows, offset by 8) must have its above context saved if it is not the first and its below context
 * if it does not end at the frame bottom -- exactly what the single-thread frame-level saver does. */
#include "verif.h"
#include "EbDefinitions.h"
#include "EbSvtAv1Dec.h"
#include "EbDecHandle.h"
#include "EbDecProcess.h"
#include "EbDecProcessFrame.h"
#include "EbDecRestoration.h"
#include "EbRestoration.h"
#define MAXS 8
static int saved_above[MAXS], saved_below[MAXS];
void save_deblock_boundary_lines(uint8_t *src_buf, int32_t src_stride, int32_t src_width, int32_t src_height, const Av1Common *cm, int32_t plane,
                                 int32_t row, int32_t stripe, int32_t use_highbd, int32_t is_above, RestorationStripeBoundaries *boundaries) {
    (void)src_buf; (void)src_stride; (void)src_width; (void)src_height; (void)cm; (void)row; (void)use_highbd; (void)boundaries;
    if (plane == 0) { V_ASSERT(stripe >= 0 && stripe < MAXS, "stripe index in range"); if (stripe >= 0 && stripe < MAXS) { if (is_above) saved_above[stripe] = 1; else saved_below[stripe] = 1; } }
}
#include "c09_lr_bdry.inc"
void harness(void) {
    EbDecHandle *h = (EbDecHandle *)malloc(sizeof *h); LrCtxt *lr = (LrCtxt *)malloc(sizeof *lr); V_ASSUME(h && lr);
    int fh = (int)vin_range(16, 384); V_ASSUME((fh & 1) == 0);
    int sb128 = vinbool(); int sbs = sb128 ? 128 : 64;
    int sb_rows = (fh + sbs - 1) / sbs;
    h->cm.subsampling_x = 1; h->cm.subsampling_y = 1; h->cm.frm_size.frame_height = (uint16_t)fh; h->cm.frm_size.frame_width = 64;
    h->frame_header.frame_size.frame_width = 64; h->frame_header.frame_size.frame_height = (uint16_t)fh;
    h->seq_header.sb_size = sb128 ? BLOCK_128X128 : BLOCK_64X64; h->seq_header.color_config.bit_depth = EB_8BIT; h->is_16bit_pipeline = 0;
    h->pv_lr_ctxt = lr; h->main_frame_buf.cur_frame_bufs[0].dec_mt_frame_data.sb_rows = sb_rows;
    Av1PixelRect rect; rect.left = 0; rect.right = 64; rect.top = 0; rect.bottom = fh; Av1PixelRect *rects[3] = {&rect, &rect, &rect};
    uint8_t *src[3] = {NULL, NULL, NULL}; int32_t stride[3] = {64, 32, 32};
    for (int r = 0; r < 6; r++) if (r < sb_rows) dec_save_lf_boundary_lines_sb_row(h, rects, r, src, stride, 1);
    int nstripes = (fh + 8 + 63) / 64;
    for (int s = 0; s < MAXS; s++) if (s < nstripes) {
        int y1 = (s + 1) * 64 - 8; if (y1 > fh) y1 = fh;
        if (s > 0) V_ASSERT(saved_above[s], "deblocked context above every restoration stripe but the first is saved before CDEF runs");
        if (y1 < fh) V_ASSERT(saved_below[s], "deblocked context below every restoration stripe that does not end at the frame bottom is saved");
    }
    V_END();
}
#ifndef VERIF_CBMC
int main(void) { harness(); puts("REPLAY-OK"); return 0; }
#endif
