/* C25: arithmetic coder.  Real writer (EbBitstreamUnit.c) and real reader (EbDecBitstreamUnit.h,
 * EbDecBitReader.h) compiled into one TU. */
#include "verif.h"
#include "Source/Lib/Common/Codec/EbBitstreamUnit.c"
#include "Source/Lib/Decoder/Codec/EbDecBitReader.h"

#ifndef NMAX
#define NMAX 4
#endif
#ifndef K
#define K 1
#endif
/* initial buffer size handed to the real svt_od_ec_enc_init: 64 by default; with -DSMALL_INIT a size of 1..3 entries (one query each), so that
 * both buffer-growth paths (pre-carry buffer in od_ec_enc_normalize / svt_od_ec_enc_done, byte buffer in svt_od_ec_enc_done)
 * are taken while earlier output is already stored (in the encoder they are first taken after 62025 bytes of one tile) */
#ifdef SMALL_INIT
#define INIT_SIZE SMALL_INIT   /* concrete per query: a symbolic size made realloc's copy symbolic-length (11 GB, undecided) */
#else
#define INIT_SIZE 64
#endif

/* validity predicate V of an inverse CDF with n symbols (AV1 spec 8.2.6 / comments of svt_od_ec_encode_cdf_q15) */
static int cdf_valid(const AomCdfProb *c, int n) {
    if (!(c[0] < 32768)) return 0;
    for (int i = 0; i + 1 < n; i++) if (!(c[i] >= c[i + 1])) return 0;
    if (c[n - 1] != 0) return 0;
    if (c[n] > 32) return 0;
    return 1;
}
static void arb_cdf(AomCdfProb *c, int n) {
    for (int i = 0; i < 17; i++) c[i] = (i <= n) ? vin16() : 0;
    V_ASSUME(cdf_valid(c, n));
}

/* RT-sym: K multi-symbols, each with its own arbitrary valid CDF, adaptation on or off */
void rt_sym(void) {
    AomWriter w; SvtReader r;
    AomCdfProb cw[K][17], cr[K][17];
    int n[K], s[K];
    int upd = vinbool();
    memset(&w, 0, sizeof w);
    svt_od_ec_enc_init(&w.ec, INIT_SIZE);
    V_ASSUME(w.ec.buf != NULL && w.ec.precarry_buf != NULL);
    w.allow_update_cdf = (uint8_t)upd;
    for (int k = 0; k < K; k++) {
        n[k] = (int)vin_range(2, NMAX);
        arb_cdf(cw[k], n[k]);
        memcpy(cr[k], cw[k], sizeof cw[k]);
        s[k] = (int)vin_range(0, NMAX - 1);
        V_ASSUME(s[k] < n[k]);
        aom_write_symbol(&w, s[k], cw[k], n[k]);
    }
    int32_t tell = svt_od_ec_enc_tell(&w.ec);
    uint32_t nbytes = 0;
    uint8_t *data = svt_od_ec_enc_done(&w.ec, &nbytes);
    V_ASSERT(data != NULL, "writer finishes without error");
    V_ASSERT((int64_t)nbytes * 8 <= (int64_t)tell + 7, "bit-count estimate never under-reports the bytes emitted");
    svt_reader_init(&r, data, nbytes);
    r.allow_update_cdf = (uint8_t)upd;
    for (int k = 0; k < K; k++) {
        int d = aom_read_symbol_(&r, cr[k], n[k]);
        V_ASSERT(d == s[k], "reader recovers the written symbol");
        for (int i = 0; i < 17; i++) V_ASSERT(cr[k][i] == cw[k][i], "reader's probability table evolves identically to the writer's");
    }
    V_END();
}

/* RT-bool: K booleans with arbitrary 8-bit probabilities followed by nothing */
void rt_bool(void) {
    AomWriter w; SvtReader r;
    int p[K], b[K];
    memset(&w, 0, sizeof w);
    svt_od_ec_enc_init(&w.ec, INIT_SIZE);
    V_ASSUME(w.ec.buf != NULL && w.ec.precarry_buf != NULL);
    for (int k = 0; k < K; k++) {
        p[k] = (int)vin_range(1, 255); b[k] = vinbool();
        aom_write(&w, b[k], p[k]);
    }
    int32_t tell = svt_od_ec_enc_tell(&w.ec);
    uint32_t nbytes = 0;
    uint8_t *data = svt_od_ec_enc_done(&w.ec, &nbytes);
    V_ASSERT(data != NULL, "writer finishes without error");
    V_ASSERT((int64_t)nbytes * 8 <= (int64_t)tell + 7, "bit-count estimate never under-reports the bytes emitted");
    svt_reader_init(&r, data, nbytes);
    for (int k = 0; k < K; k++) {
        int d = aom_read_(&r, p[k]);
        V_ASSERT(d == b[k], "reader recovers the written boolean");
    }
    V_END();
}

/* RT-lit: one literal of up to LBITS bits (sequence of half-probability booleans) */
#ifndef LBITS
#define LBITS 3
#endif
void rt_literal(void) {
    AomWriter w; SvtReader r;
    int bits = (int)vin_range(1, LBITS);
    int v = (int)vin_range(0, (1 << LBITS) - 1);
    V_ASSUME(v < (1 << bits));
    memset(&w, 0, sizeof w);
    svt_od_ec_enc_init(&w.ec, INIT_SIZE);
    V_ASSUME(w.ec.buf != NULL && w.ec.precarry_buf != NULL);
    aom_write_literal(&w, v, bits);
    uint32_t nbytes = 0;
    uint8_t *data = svt_od_ec_enc_done(&w.ec, &nbytes);
    V_ASSERT(data != NULL, "writer finishes without error");
    svt_reader_init(&r, data, nbytes);
    int d = aom_read_literal_(&r, bits);
    V_ASSERT(d == v, "reader recovers the written literal");
    V_END();
}

/* Lemma i: writer-side and reader-side adaptation are the same function (arbitrary table, not only valid ones) */
void lem_update_equiv(void) {
    AomCdfProb a[17], b[17];
    int n = (int)vin_range(2, 16);
    for (int i = 0; i < 17; i++) { a[i] = vin16(); b[i] = a[i]; }
    V_ASSUME(a[n] <= 32);
    int s = (int)vin_range(0, 15);
    V_ASSUME(s < n);
    update_cdf(a, s, n);
    dec_update_cdf(b, (int8_t)s, n);
    for (int i = 0; i < 17; i++) V_ASSERT(a[i] == b[i], "update_cdf == dec_update_cdf");
    V_END();
}
/* Lemma ii: adaptation preserves validity */
void lem_update_valid(void) {
    AomCdfProb a[17];
    int n = (int)vin_range(2, 16);
    arb_cdf(a, n);
    int s = (int)vin_range(0, 15);
    V_ASSUME(s < n);
    update_cdf(a, s, n);
    V_ASSERT(cdf_valid(a, n), "adaptation keeps the table a valid inverse CDF");
    V_END();
}
/* Lemma iii: range lock-step from an arbitrary reader state: whatever symbol the reader decodes,
 * a writer in the same range state encoding that symbol ends in the same range. */
#ifndef NFIX
#define NFIX 4
#endif
void lem_range_lockstep(void) {
    AomCdfProb c[17];
    const int n = NFIX;
    arb_cdf(c, n);
    OdEcDec dec; OdEcEnc enc;
    static const unsigned char zeros[8] = {0};
    memset(&dec, 0, sizeof dec); memset(&enc, 0, sizeof enc);
    unsigned rng = (unsigned)vin_range(32768, 65535);
    dec.rng = (uint16_t)rng; dec.dif = (OdEcWindow)vin64(); dec.cnt = (int16_t)vin_range(0, 40);
    dec.buf = dec.bptr = zeros; dec.end = zeros + 8;
    V_ASSUME((dec.dif >> (OD_EC_WINDOW_SIZE - 16)) < rng);
    int s = od_ec_decode_cdf_q15(&dec, c, n);
    V_ASSERT(s >= 0 && s < n, "decoded symbol inside the alphabet");
    enc.rng = (uint16_t)rng; enc.low = 0; enc.cnt = -9; enc.offs = 0;
    uint16_t pre[4]; enc.precarry_buf = pre; enc.precarry_storage = 4;
    svt_od_ec_encode_cdf_q15(&enc, s, c, n);
    V_ASSERT(enc.rng == dec.rng, "writer and reader range registers stay in lock-step");
    V_ASSERT(enc.rng >= 32768, "range renormalised to [32768,65535]");
    V_END();
}
/* Lemma iv: one writer step (boolean) from an arbitrary state in the writer's invariant keeps the
 * invariant, never lowers the bit count, and stores the byte offset exactly (also near 2^16). */
void lem_normalize(void) {
    OdEcEnc enc; memset(&enc, 0, sizeof enc);
    uint32_t offs = (uint32_t)vin32();
    V_ASSUME(offs <= 4 || (offs >= 65530 && offs <= 65540));
    enc.precarry_storage = 65544;
    enc.precarry_buf = (uint16_t *)malloc(sizeof(uint16_t) * 65544);
    V_ASSUME(enc.precarry_buf != NULL);
    enc.offs = offs;
    enc.cnt = (int16_t)vin_range(-9, -1);
    enc.rng = (uint16_t)vin_range(32768, 65535);
    enc.low = (OdEcWindow)vin32();
    V_ASSUME(((uint64_t)enc.low >> (enc.cnt + 25)) == 0);   /* at most cnt+25 bits incl. carry */
    int64_t tell0 = svt_od_ec_enc_tell(&enc);
    int val = vinbool(); unsigned f = (unsigned)vin_range(1, 32767);
    svt_od_ec_encode_bool_q15(&enc, val, f);
    V_ASSERT(enc.error == 0, "no error without allocation failure");
    V_ASSERT(enc.rng >= 32768, "range renormalised");
    V_ASSERT(enc.cnt >= -9 && enc.cnt <= -1, "bit counter stays in [-9,-1]");
    V_ASSERT((uint64_t)enc.offs >= (uint64_t)offs && (uint64_t)enc.offs <= (uint64_t)offs + 2, "byte offset advances by 0..2 and is stored exactly");
    V_ASSERT((int64_t)svt_od_ec_enc_tell(&enc) >= tell0, "bit count never decreases");
    free(enc.precarry_buf);
    V_END();
}
/* LEM-capacity (2-safety on buffer capacity): from an arbitrary writer state in its invariant that already holds 0..3 pre-carry
 * entries, one boolean (-DCAP_STEP) or svt_od_ec_enc_done produces the same state / bytes whether the buffers are roomy (no growth) or
 * tight (TIGHT entries: the pre-carry buffer grows in od_ec_enc_normalize and/or svt_od_ec_enc_done while holding output,
 * the byte buffer grows in svt_od_ec_enc_done). */
#ifndef TIGHT
#define TIGHT 2
#endif
static void cap_state(OdEcEnc *e, uint32_t storage, uint32_t offs, const uint16_t *ent, int16_t cnt, uint16_t rng, OdEcWindow low) {
    memset(e, 0, sizeof *e);
    e->precarry_storage = storage; e->precarry_buf = (uint16_t *)malloc(sizeof(uint16_t) * storage);
    e->storage = storage; e->buf = (uint8_t *)malloc(storage);
    V_ASSUME(e->precarry_buf != NULL && e->buf != NULL);
    for (uint32_t i = 0; i < 3; i++) if (i < offs) e->precarry_buf[i] = ent[i];
    e->offs = offs; e->cnt = cnt; e->rng = rng; e->low = low;
}
void lem_capacity(void) {
    OdEcEnc a, b; uint16_t ent[3];
    uint32_t offs = (uint32_t)vin_range(0, TIGHT);
    for (int i = 0; i < 3; i++) { ent[i] = vin16(); V_ASSUME(ent[i] <= 0x1FF); }   /* a byte plus its carry bit */
    int16_t cnt = (int16_t)vin_range(-9, -1); uint16_t rng = (uint16_t)vin_range(32768, 65535); OdEcWindow low = (OdEcWindow)vin32();
    V_ASSUME(((uint64_t)low >> (cnt + 25)) == 0);
    cap_state(&a, 64, offs, ent, cnt, rng, low); cap_state(&b, TIGHT, offs, ent, cnt, rng, low);
#ifdef CAP_STEP
    /* one writer step (growth inside od_ec_enc_normalize): the whole writer state and every stored entry agree */
    int val = vinbool(); unsigned f = (unsigned)vin_range(1, 32767);
    svt_od_ec_encode_bool_q15(&a, val, f); svt_od_ec_encode_bool_q15(&b, val, f);
    V_ASSERT(a.error == 0 && b.error == 0, "no error without allocation failure");
    V_ASSERT(a.offs == b.offs && a.low == b.low && a.rng == b.rng && a.cnt == b.cnt, "writer registers do not depend on the buffer capacity");
    V_ASSERT(b.precarry_storage >= b.offs, "entries stored inside the (grown) buffer");
    for (uint32_t i = 0; i < TIGHT + 2; i++) if (i < a.offs && i < b.offs) V_ASSERT(a.precarry_buf[i] == b.precarry_buf[i], "pre-carry entries (old and new) do not depend on the buffer capacity: output held in the buffer survives its growth");
#else
    /* termination (growth inside svt_od_ec_enc_done): the emitted bytes agree */
    uint32_t na = 0, nb = 0;
    uint8_t *da = svt_od_ec_enc_done(&a, &na), *db = svt_od_ec_enc_done(&b, &nb);
    V_ASSERT(da != NULL && db != NULL, "writer finishes without error");
    V_ASSERT(na == nb, "number of bytes emitted does not depend on the buffer capacity");
    for (uint32_t i = 0; i < 6; i++) if (i < na && i < nb) V_ASSERT(da[i] == db[i], "bytes emitted do not depend on the buffer capacity (output held in the buffers survives their growth)");
    V_ASSERT(na <= 6, "at most 3 stored + 3 flushed bytes");
#endif
    V_END();
}
#ifndef VERIF_CBMC
int main(void) { V_ENTRY(); puts("REPLAY-OK"); return 0; }
#endif
