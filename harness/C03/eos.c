/* C03 (EOS placement): the tail of the queue-drain loop of packetization_kernel -- from the point where the
 * temporal unit's EOS flag is read to release_frames -- sliced verbatim, together with the real
 * encode_show_existing / copy_data_from_bitstream / pop_undisplayed_frame / set/clear_eos_flag.  encode_tu
 * (the byte assembly, checked elsewhere) is a stub that preserves the flags the real one preserves. */
#include "verif.h"
#include "EbDefinitions.h"
#include "EbSequenceControlSet.h"
#include "EbPictureControlSet.h"
#include "EbPacketizationReorderQueue.h"
#include "EbEncodeContext.h"
#include "EbEntropyCoding.h"
#include "EbSvtAv1ErrorCodes.h"
#define TD_SIZE 2
static EbBufferHeaderType *posted[4]; static int n_posted;
EbErrorType svt_post_full_object(EbObjectWrapper *w) { V_ASSERT(n_posted < 4, "at most two packets per temporal unit"); if (n_posted < 4) posted[n_posted++] = (EbBufferHeaderType *)w->object_ptr; return EB_ErrorNone; }
EbErrorType encode_td_av1(uint8_t *p) { p[0] = 0x12; p[1] = 0; return EB_ErrorNone; }
int bitstream_get_bytes_count(const Bitstream *b) { return (int)(b->output_bitstream_ptr->buffer_av1 - b->output_bitstream_ptr->buffer_begin_av1); }
void bitstream_copy(const Bitstream *b, void *dest, int size) { memcpy(dest, b->output_bitstream_ptr->buffer_begin_av1, (size_t)size); }
static EbErrorType encode_tu(EncodeContext *e, int frames, uint32_t total_bytes, EbBufferHeaderType *o) { (void)e; (void)frames; (void)total_bytes; o->flags |= EB_BUFFERFLAG_HAS_TD; return EB_ErrorNone; }
static void release_frames(EncodeContext *e, int frames) { (void)e; (void)frames; }
#include "c03_eos.inc"
void harness(void) {
    static EncodeContext ectx; static int pctx; static PacketizationReorderEntry qe;
    static EbObjectWrapper w_tu, w_hidden; static EbBufferHeaderType tu, hidden; static uint8_t hbuf[8], tbuf[8];
    static Bitstream bs; static OutputBitstreamUnit obu; static uint8_t sbuf[4];
    w_tu.object_ptr = &tu; w_hidden.object_ptr = &hidden;
    tu.p_buffer = tbuf; tu.n_alloc_len = 8; hidden.p_buffer = hbuf; hidden.n_alloc_len = 8;
    int eos = vinbool(), hse = vinbool();
    tu.flags = eos ? EB_BUFFERFLAG_EOS : 0; tu.pts = 10;
    hidden.flags = (uint32_t)(vinbool() ? EB_BUFFERFLAG_IS_ALT_REF : 0); hidden.pts = 11;       /* flags collected earlier for the hidden frame */
    qe.has_show_existing = (EbBool)hse; qe.output_stream_wrapper_ptr = &w_tu; qe.bitstream_ptr = &bs; bs.output_bitstream_ptr = &obu;
    obu.buffer_begin_av1 = sbuf; obu.buffer_av1 = sbuf + 1; sbuf[0] = 0x40;
    ectx.picture_decision_undisplayed_queue_count = hse ? 1 : 0; ectx.picture_decision_undisplayed_queue[0] = &w_hidden;
    tail_of_drain(&pctx, &ectx, &qe, 1, 3);
    V_ASSERT(n_posted == (hse ? 2 : 1), "one packet for the temporal unit plus one for a show-existing frame");
    EbBufferHeaderType *last = posted[n_posted - 1];
    for (int i = 0; i < n_posted; i++)
        V_ASSERT(((posted[i]->flags & EB_BUFFERFLAG_EOS) != 0) == (eos && posted[i] == last), "EOS on exactly the last packet delivered for the stream's last temporal unit");
    if (hse) {
        V_ASSERT(last == &hidden, "the show-existing packet is the one delivered last");
        V_ASSERT((hidden.flags & EB_BUFFERFLAG_SHOW_EXT) && (hidden.flags & EB_BUFFERFLAG_HAS_TD), "show-existing packet flagged as such, with temporal delimiter");
        V_ASSERT(hidden.n_filled_len == 3 && hbuf[0] == 0x12 && hbuf[1] == 0 && hbuf[2] == 0x40, "show-existing packet = temporal delimiter + show-existing frame header");
        V_ASSERT(hidden.pts == 11 && tu.pts == 10, "each packet keeps the pts of the picture it displays");
    }
    V_END();
}
#ifndef VERIF_CBMC
int main(void) { harness(); puts("REPLAY-OK"); return 0; }
#endif
