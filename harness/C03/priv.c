/* C03 (application-private pointer): the real collect_frames_info (EbPacketizationProcess.c) on a temporal
 * unit whose packets were filled the way the first half of the kernel fills them
 * (output_stream_ptr->p_app_private = input_ptr->p_app_private). */
#include "verif.h"
#include "EbDefinitions.h"
#include "EbSequenceControlSet.h"
#include "EbPictureControlSet.h"
#include "EbPacketizationReorderQueue.h"
#include "EbEncodeContext.h"
void svt_av1_get_time(uint64_t *s, uint64_t *u) { *s = vin64(); *u = vin64(); }
double svt_av1_compute_overall_elapsed_time_ms(uint64_t a, uint64_t b, uint64_t c, uint64_t d) { (void)a; (void)b; (void)c; (void)d; return 1.0; }
#include "c03_collect.inc"
void harness(void) {
    static EncodeContext ectx; static PacketizationReorderEntry e[2]; static PacketizationReorderEntry *qarr[PACKETIZATION_REORDER_QUEUE_MAX_DEPTH];
    static EbObjectWrapper w[2]; static EbBufferHeaderType o[2]; static EbLinkedListNode meta;
    int frames = (int)vin_range(1, 2);
    ectx.packetization_reorder_queue = qarr; ectx.packetization_reorder_queue_head_index = 0;
    void *priv[2];
    for (int i = 0; i < 2; i++) {
        qarr[i] = &e[i]; e[i].output_stream_wrapper_ptr = &w[i]; w[i].object_ptr = &o[i];
        priv[i] = (void *)(uintptr_t)(0x1000 + (vin64() & 0xfff));
        o[i].p_app_private = priv[i];                       /* set from the submitted picture by the first half of the kernel */
        e[i].out_meta_data = vinbool() ? &meta : NULL;      /* pass-through data list collected for the picture */
        e[i].is_alt_ref = (uint8_t)vinbool(); o[i].flags = 0;
    }
    collect_frames_info(NULL, &ectx, frames);
    V_ASSERT(o[frames - 1].p_app_private == priv[frames - 1], "packet carries the application-private pointer of the submitted picture it displays");
    V_END();
}
#ifndef VERIF_CBMC
int main(void) { harness(); puts("REPLAY-OK"); return 0; }
#endif
