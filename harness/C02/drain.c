/* C02-T / C03-P / C22 queue wrap: the temporal-unit assembly of packetization_kernel.
 * The real helper functions (count_frames_in_next_tu, collect_frames_info, encode_tu,
 * encode_show_existing, release_frames, push/pop/sort of undisplayed frames, copy_data_from_bitstream)
 * come from the real EbPacketizationProcess.c; the "Process the head of the queue" loop of the kernel is
 * sliced verbatim into drain_queue() (c02_drain.inc).  Pictures ARRIVE in an arbitrary order: after each
 * arrival the queue entry is filled the way the first half of the kernel fills it and the drain loop runs. */
#include "verif.h"
#ifndef K
#define K 3
#endif
#ifndef HEAD
#define HEAD 2047
#endif
/* The reorder queue depth is a macro (2048); the assembly code is parametric in it. It is scaled down to
 * QDEPTH here so that a symbolic queue index is a QDEPTH-way, not a 2048-way, case split. The 2047->0
 * wrap becomes the (QDEPTH-1)->0 wrap. */
#include "EbEncodeContext.h"
#ifndef QDEPTH
#define QDEPTH 8
#endif
#undef PACKETIZATION_REORDER_QUEUE_MAX_DEPTH
#define PACKETIZATION_REORDER_QUEUE_MAX_DEPTH QDEPTH
#define qsort v_qsort
static void v_qsort(void *base, size_t n, size_t sz, int (*cmp)(const void *, const void *));
#include "Source/Lib/Encoder/Codec/EbPacketizationProcess.c"
#undef qsort
static void v_qsort(void *base, size_t n, size_t sz, int (*cmp)(const void *, const void *)) {
    void **a = (void **)base; (void)sz;
    for (size_t i = 1; i < n && i < REF_FRAMES; i++)
        for (size_t j = i; j > 0 && cmp(&a[j - 1], &a[j]) > 0; j--) { void *t = a[j]; a[j] = a[j - 1]; a[j - 1] = t; }
}
void svt_print_alloc_fail(const char *f, int l) { (void)f; (void)l; }
static void v_memcpy(void *d, const void *s, size_t n) { memcpy(d, s, n); }
void (*svt_memcpy)(void *, const void *, size_t) = v_memcpy;
EbErrorType encode_td_av1(uint8_t *p) { p[0] = 0x12; p[1] = 0x00; return EB_ErrorNone; }
int bitstream_get_bytes_count(const Bitstream *b) { return (int)(b->output_bitstream_ptr->buffer_av1 - b->output_bitstream_ptr->buffer_begin_av1); }
void bitstream_copy(const Bitstream *b, void *dest, int size) { memcpy(dest, b->output_bitstream_ptr->buffer_begin_av1, (size_t)size); }
void svt_av1_get_time(uint64_t *s, uint64_t *u) { *s = vin64(); *u = vin64(); }
double svt_av1_compute_overall_elapsed_time_ms(uint64_t a, uint64_t b, uint64_t c, uint64_t d) { (void)a; (void)b; (void)c; (void)d; return 1.0; }

static EncodeContext ectx; static PacketizationContext pctx;
static PacketizationReorderEntry entries[K]; static Bitstream ebs[K]; static OutputBitstreamUnit eobu[K]; static uint8_t ebuf[K][8];
static EbObjectWrapper w_out[K]; static EbBufferHeaderType outbuf[K];
static int shown[K], hse[K], flen[K], is_key[K], arrived[K];
static int n_packets, eos_seen, last_dec = -1, nd;
static int64_t exp_pts[2 * K]; static int exp_showex[2 * K], exp_dec[2 * K];
static int eos_on;

EbErrorType svt_post_full_object(EbObjectWrapper *w) {
    EbBufferHeaderType *o = (EbBufferHeaderType *)w->object_ptr;
    int j = n_packets++;
    V_ASSERT(!eos_seen, "no packet follows the packet that carries EOS");
    V_ASSERT(j < nd, "not more packets than displayed pictures");
    if (j >= nd) return EB_ErrorNone;
    V_ASSERT(o->n_filled_len >= 3 && o->n_filled_len <= o->n_alloc_len, "packet length within its buffer");
    V_ASSERT(o->p_buffer[0] == 0x12 && o->p_buffer[1] == 0x00, "packet starts with a temporal delimiter");
    V_ASSERT((o->flags & EB_BUFFERFLAG_HAS_TD) != 0, "temporal-delimiter flag set");
    uint32_t pos = 2; int nshown = 0, nshowex = 0;
    for (int guard = 0; guard < 2 * K + 2 && pos < o->n_filled_len; guard++) {
        uint8_t m = o->p_buffer[pos];
        if (m & 0x80) {
            int idx = (m >> 1) & 0x1f; int sh = m & 1;
            V_ASSERT(idx < K, "frame marker intact"); if (idx >= K) break;
            V_ASSERT(idx == last_dec + 1, "frames leave in decode order, none skipped or repeated"); last_dec = idx;
            nshown += sh;
            if (sh) V_ASSERT(pos + (uint32_t)flen[idx] == o->n_filled_len, "the shown frame is the last frame of the temporal unit");
            pos += (uint32_t)flen[idx];
            continue;
        }
        if (m & 0x40) { nshowex++; pos++; continue; }
        V_ASSERT(0, "packet consists of whole OBUs only (no stray bytes)"); break;
    }
    V_ASSERT(pos == o->n_filled_len, "size of the packet equals the sum of its parts");
    V_ASSERT(nshown + nshowex == 1, "exactly one displayed frame (shown or show-existing) per packet");
    V_ASSERT(o->pts == exp_pts[j] && o->dts == o->pts, "k-th packet carries the pts of the k-th displayed picture, dts == pts");
    V_ASSERT(((o->flags & EB_BUFFERFLAG_SHOW_EXT) != 0) == (exp_showex[j] != 0), "show-existing flag agrees with the packet");
    int want_eos = eos_on && j == nd - 1;
    V_ASSERT(((o->flags & EB_BUFFERFLAG_EOS) != 0) == (want_eos != 0), "EOS flag on exactly the last packet of the stream");
    if (o->flags & EB_BUFFERFLAG_EOS) eos_seen = 1;
    return EB_ErrorNone;
}
#include "c02_drain.inc"    /* static void drain_queue(PacketizationContext *context_ptr, EncodeContext *encode_context_ptr) */

/* what the first half of the kernel stores for picture i (EbPacketizationProcess.c, "Input Entropy Results into Reordering Queue") */
static void arrive(int i) {
    PacketizationReorderEntry *q = ectx.packetization_reorder_queue[(HEAD + i) % PACKETIZATION_REORDER_QUEUE_MAX_DEPTH];
    EbBufferHeaderType *o = &outbuf[i];
    o->flags = (eos_on && i == K - 1) ? EB_BUFFERFLAG_EOS : 0;
    o->pts = exp_pts[0] - 1;    /* overwritten below */
    o->n_alloc_len = (uint32_t)flen[i] + TD_SIZE; o->p_buffer = (uint8_t *)malloc(o->n_alloc_len); V_ASSUME(o->p_buffer != NULL);
    o->p_buffer[0] = (uint8_t)(0x80 | (i << 1) | (shown[i] ? 1 : 0)); for (int t = 1; t < flen[i]; t++) o->p_buffer[t] = 0xEE;
    o->n_filled_len = (uint32_t)flen[i];
    q->show_frame = (EbBool)shown[i]; q->has_show_existing = (EbBool)hse[i]; q->is_alt_ref = 0; q->out_meta_data = NULL;
    if (hse[i]) { ebs[i].output_bitstream_ptr->buffer_av1 = ebs[i].output_bitstream_ptr->buffer_begin_av1; *ebs[i].output_bitstream_ptr->buffer_av1++ = (uint8_t)(0x40 | i); }
    q->output_stream_wrapper_ptr = &w_out[i];
}

void harness(void) {
    static PacketizationReorderEntry *qarr[PACKETIZATION_REORDER_QUEUE_MAX_DEPTH];
    ectx.packetization_reorder_queue = qarr;
    ectx.packetization_reorder_queue_head_index = HEAD % PACKETIZATION_REORDER_QUEUE_MAX_DEPTH;
    for (int i = 0; i < K; i++) {
        qarr[(HEAD + i) % PACKETIZATION_REORDER_QUEUE_MAX_DEPTH] = &entries[i];
        entries[i].bitstream_ptr = &ebs[i]; ebs[i].output_bitstream_ptr = &eobu[i]; eobu[i].buffer_begin_av1 = eobu[i].buffer_av1 = ebuf[i]; eobu[i].size = 8;
        entries[i].show_frame = (EbBool)vinbool(); entries[i].has_show_existing = (EbBool)vinbool();   /* stale content of the slot */
        entries[i].output_stream_wrapper_ptr = NULL; entries[i].picture_number = HEAD + (unsigned)i;
        w_out[i].object_ptr = &outbuf[i];
        flen[i] = 1 + (i % 2);    /* concrete frame sizes (symbolic sizes make every memmove of the assembly a symbolic-length copy) */
    }
    eos_on = vinbool();
    /* GOP shape and expected display order (<= 1 outstanding hidden frame) */
    int hid = 0, hidden_idx = -1; int64_t next_pts = (int64_t)vin_range(0, 1000); int64_t pts_of[K];
    for (int i = 0; i < K; i++) {
        int sh = vinbool();
        if (hid) sh = 1;
        if (i == K - 1) sh = 1;
        shown[i] = sh; hse[i] = 0;
        if (!sh) { hid = 1; hidden_idx = i; }
        else {
            pts_of[i] = next_pts++; exp_pts[nd] = pts_of[i]; exp_showex[nd] = 0; exp_dec[nd] = i; nd++;
            if (hid) { int h = (i == K - 1) ? 1 : vinbool(); if (h) { hse[i] = 1; pts_of[hidden_idx] = next_pts++; exp_pts[nd] = pts_of[hidden_idx]; exp_showex[nd] = 1; exp_dec[nd] = i; nd++; hid = 0; } }
        }
    }
    V_ASSUME(!hid);
    for (int i = 0; i < K; i++) { outbuf[i].pts = pts_of[i]; outbuf[i].dts = pts_of[i]; }
    /* arrival: any order */
    for (int step = 0; step < K; step++) {
        int i = (int)vin_range(0, K - 1);
        V_ASSUME(!arrived[i]); arrived[i] = 1;
        int64_t keep = outbuf[i].pts; arrive(i); outbuf[i].pts = keep; outbuf[i].dts = keep;
        drain_queue(&pctx, &ectx);
    }
    V_ASSERT(n_packets == nd, "exactly one packet per displayed picture once every picture has arrived");
    V_ASSERT(ectx.packetization_reorder_queue_head_index == (HEAD + K) % PACKETIZATION_REORDER_QUEUE_MAX_DEPTH, "queue head advanced past the window modulo the queue depth");
    if (eos_on) V_ASSERT(eos_seen, "EOS delivered");
    V_END();
}
#ifndef VERIF_CBMC
int main(void) { harness(); puts("REPLAY-OK"); return 0; }
#endif
