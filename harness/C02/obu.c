/* C02-H (OBU framing): the real OBU header / size-field writers of EbEntropyCoding.c (sliced by name)
 * used exactly as write_frame_header_av1 / encode_sps_av1 use them: header, payload written behind the
 * header, obu_mem_move to open the gap for the size field, write_uleb_obu_size. The result is parsed by an
 * independent reader written from the AV1 specification (5.3.1 obu_header, 4.10.5 leb128). */
#include "verif.h"
#include "EbDefinitions.h"
#include "EbEntropyCoding.h"
#include "c02_obu.inc"
#ifndef PMIN
#define PMIN 0
#endif
#ifndef PMAX
#define PMAX 140
#endif
void harness(void) {
    static uint8_t data[PMAX + 16], payload[PMAX + 1];
    uint32_t P = (uint32_t)vin_range(PMIN, PMAX);
    int type = (int)vin_range(1, 8), ext = vinbool() ? (int)vin_range(1, 255) : 0;
    for (uint32_t i = 0; i < sizeof data; i++) data[i] = 0xAA;          /* stale bytes in the bitstream buffer */
    uint32_t hs = write_obu_header((ObuType)type, ext, data);
    V_ASSERT(hs == (ext ? 2u : 1u), "OBU header is 1 byte, 2 with extension");
    for (uint32_t i = 0; i < PMAX; i++) if (i < P) { payload[i] = vin8(); data[hs + i] = payload[i]; }
    size_t len = obu_mem_move(hs, P, data);
    int rc = write_uleb_obu_size(hs, P, data);
    V_ASSERT(rc == 0, "size field written");
    /* ---- independent parse (AV1 spec 5.3.2 / 4.10.5) ---- */
    uint8_t b0 = data[0];
    V_ASSERT((b0 >> 7) == 0, "obu_forbidden_bit is 0");
    V_ASSERT(((b0 >> 3) & 15) == type, "obu_type as requested");
    V_ASSERT(((b0 >> 2) & 1) == (ext ? 1 : 0), "extension flag");
    V_ASSERT(((b0 >> 1) & 1) == 1, "obu_has_size_field is 1");
    uint32_t pos = 1 + (ext ? 1 : 0);
    uint64_t v = 0; uint32_t n = 0;
    for (int i = 0; i < 8; i++) { uint8_t b = data[pos + i]; v |= (uint64_t)(b & 0x7f) << (7 * i); n++; if (!(b & 0x80)) break; }
    V_ASSERT(v == P, "obu_size field (leb128) equals the payload length");
    V_ASSERT(n == len, "the size field occupies exactly the gap opened for it");
    for (uint32_t i = 0; i < PMAX; i++) if (i < P) V_ASSERT(data[pos + n + i] == payload[i], "payload bytes follow the size field unchanged");
    V_END();
}
#ifndef VERIF_CBMC
int main(void) { harness(); puts("REPLAY-OK"); return 0; }
#endif
