/* C02 (picture type / sequence header placement): two statements of packetization_kernel sliced verbatim:
 *  (a) the assignment of output_stream_ptr->pic_type, (b) the condition that decides whether the sequence
 * header is written in front of the frame.  Arbitrary picture state, arbitrary stale queue-entry contents. */
#include "verif.h"
#include "EbDefinitions.h"
#include "EbSequenceControlSet.h"
#include "EbPictureControlSet.h"
#include "EbPacketizationReorderQueue.h"
static int sps_written;
static void encode_sps_av1_stub(void) { sps_written = 1; }
#include "c02_fill.inc"   /* static void set_pic_type(...); static void sps_decision(...) */
void harness(void) {
    PictureControlSet *pcs = (PictureControlSet *)malloc(sizeof *pcs);
    PictureParentControlSet *ppcs = (PictureParentControlSet *)malloc(sizeof *ppcs);
    PacketizationReorderEntry *q = (PacketizationReorderEntry *)malloc(sizeof *q);   /* arbitrary (stale) contents */
    EbBufferHeaderType *o = (EbBufferHeaderType *)malloc(sizeof *o);
    SequenceControlSet *scs = (SequenceControlSet *)malloc(sizeof *scs);
    V_ASSUME(pcs && ppcs && q && o && scs);
    scs->intra_refresh_type = (uint32_t)vin_range(1, 2); scs->static_config.intra_refresh_type = scs->intra_refresh_type;   /* CRA / IDR refresh */
    scs->static_config.intra_period_length = (int32_t)vin_range(-1, 255); pcs->picture_number = vin64(); ppcs->picture_number = pcs->picture_number;
    q->frame_type = (FrameType)vin_range(0, 3); q->slice_type = vin8(); q->show_frame = (EbBool)vinbool(); q->has_show_existing = (EbBool)vinbool(); q->picture_number = vin64(); q->poc = vin64();   /* stale slot contents, routed through the replayable inputs */
    pcs->parent_pcs_ptr = ppcs;
    ppcs->idr_flag = (EbBool)vinbool(); ppcs->is_used_as_reference_flag = (EbBool)vinbool();
    int islice = ppcs->idr_flag ? 1 : vinbool();
    pcs->slice_type = islice ? I_SLICE : (vinbool() ? B_SLICE : P_SLICE);
    /* EbPictureDecisionProcess.c: frame_type = idr ? KEY_FRAME : INTRA_ONLY_FRAME for I slices, INTER_FRAME otherwise */
    ppcs->frm_hdr.frame_type = ppcs->idr_flag ? KEY_FRAME : (islice ? INTRA_ONLY_FRAME : INTER_FRAME);
    FrameHeader *frm_hdr = &ppcs->frm_hdr;
    set_pic_type(pcs, o);
    if (ppcs->is_used_as_reference_flag)
        V_ASSERT((o->pic_type == EB_AV1_KEY_PICTURE) == (frm_hdr->frame_type == KEY_FRAME), "packet reports KEY picture exactly when it carries a key frame");
    else
        V_ASSERT(o->pic_type == EB_AV1_NON_REF_PICTURE, "non-reference pictures are reported as such");
    if (o->pic_type != EB_AV1_KEY_PICTURE && o->pic_type != EB_AV1_NON_REF_PICTURE)
        V_ASSERT(o->pic_type == pcs->slice_type, "otherwise the slice type is reported");
    sps_decision(pcs, scs, frm_hdr, q);
    V_ASSERT(sps_written == (frm_hdr->frame_type == KEY_FRAME), "sequence header written in front of the frame exactly when it is a key frame");
    V_END();
}
#ifndef VERIF_CBMC
int main(void) { harness(); puts("REPLAY-OK"); return 0; }
#endif
