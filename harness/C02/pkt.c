/* C02-T / C03-P / C22 (queue wrap) / C19 (sequence header at key frames):
 * the real packetization_kernel run sequentially.  svt_get_full_object hands out K entropy-coding
 * results in an arbitrary arrival order and then reports shutdown (the real EB_GET_FULL_OBJECT macro
 * returns from the kernel).  Header writers are replaced by marker writers (their real bodies are the
 * subject of the header checks); every emitted packet is checked in the svt_post_full_object stub. */
#include "verif.h"
#ifndef K
#define K 3
#endif
#ifndef PERM
#define PERM 0
#endif
#ifndef HEAD
#define HEAD 2047
#endif
#define qsort v_qsort
static void v_qsort(void *base, size_t n, size_t sz, int (*cmp)(const void *, const void *));
#include "Source/Lib/Encoder/Codec/EbPacketizationProcess.c"
#undef qsort
static void v_qsort(void *base, size_t n, size_t sz, int (*cmp)(const void *, const void *)) {
    /* insertion sort over pointer-sized elements (the only use in this file) */
    void **a = (void **)base; (void)sz;
    for (size_t i = 1; i < n && i < REF_FRAMES; i++)
        for (size_t j = i; j > 0 && cmp(&a[j - 1], &a[j]) > 0; j--) { void *t = a[j]; a[j] = a[j - 1]; a[j - 1] = t; }
}
void svt_print_alloc_fail(const char *f, int l) { (void)f; (void)l; }

/* ---------------- scenario ---------------- */
static PictureControlSet *pcs_a[K];        /* malloc'ed one by one (typed objects, no 250 kB zero-initialisation); fields the kernel reads are set below */
static PictureParentControlSet *ppcs_a[K];
#define pcs_(i) (*pcs_a[i])
#define ppcs_(i) (*ppcs_a[i])
static Av1Common cmn[K];
static EbBufferHeaderType inbuf[K];
static EntropyCodingResults ecr[K];
static EbObjectWrapper w_ecr[K], w_pcs[K], w_ppcs[K], w_scs, w_out[K + 1], w_rc[K], w_pm[K];
static EbBufferHeaderType outbuf[K + 1];
static RateControlTasks rct[K]; static PictureDemuxResults pmr[K];
static SequenceControlSet *scs_p; static EncodeContext ectx;
#define scs (*scs_p)
static PacketizationReorderEntry entries[K + 1]; static Bitstream ebs[K + 1], pbs[K]; static OutputBitstreamUnit eobu[K + 1], pobu[K];
static uint8_t ebuf[K + 1][24], pbuf[K][24];
static PacketizationContext pctx; static EbThreadContext tctx;
static EbFifo f_in, f_rc, f_pm, f_out;
static int shown[K], hid_outstanding, n_displayed_expected;
static int64_t exp_pts[2 * K]; static int exp_key[2 * K], exp_showex[2 * K], exp_dec[2 * K];
static int arrival[K], delivered, out_used, rc_used, pm_used;
static uint32_t head_dec;                 /* decode order of the first picture of the window */
static int n_packets, eos_seen, last_dec = -1;

/* marker format written by the stubs: 'S' (sequence header), 'M' (metadata), and a frame marker
 * byte 0x80|idx<<1|shown followed by (len-1) filler bytes 0xEE; show-existing header: 0x40|idx */
static void put(Bitstream *b, uint8_t v) { *b->output_bitstream_ptr->buffer_av1++ = v; }
void bitstream_reset(Bitstream *b) { b->output_bitstream_ptr->buffer_av1 = b->output_bitstream_ptr->buffer_begin_av1; }
int bitstream_get_bytes_count(const Bitstream *b) { return (int)(b->output_bitstream_ptr->buffer_av1 - b->output_bitstream_ptr->buffer_begin_av1); }
void bitstream_copy(const Bitstream *b, void *dest, int size) { memcpy(dest, b->output_bitstream_ptr->buffer_begin_av1, (size_t)size); }
static void v_memcpy(void *d, const void *s, size_t n) { memcpy(d, s, n); }
void (*svt_memcpy)(void *, const void *, size_t) = v_memcpy;
EbErrorType encode_sps_av1(Bitstream *b, SequenceControlSet *s) { (void)s; put(b, 'S'); return EB_ErrorNone; }
EbErrorType write_metadata_av1(Bitstream *b, SvtMetadataArrayT *m, const EbAv1MetadataType t) { (void)b; (void)m; (void)t; return EB_ErrorNone; }
void svt_metadata_array_free(void *arr) { (void)arr; }
size_t svt_metadata_size(SvtMetadataArrayT *m, const EbAv1MetadataType t) { (void)m; (void)t; return 0; }
static int flen[K];
EbErrorType write_frame_header_av1(Bitstream *b, SequenceControlSet *s, PictureControlSet *p, uint8_t show_existing) {
    (void)s; int idx = 0; for (int t = 0; t < K; t++) if (p == pcs_a[t]) idx = t;
    if (show_existing) { put(b, (uint8_t)(0x40 | idx)); return EB_ErrorNone; }
    put(b, (uint8_t)(0x80 | (idx << 1) | (p->parent_pcs_ptr->frm_hdr.show_frame ? 1 : 0)));
    for (int i = 1; i < flen[idx]; i++) put(b, 0xEE);
    return EB_ErrorNone;
}
EbErrorType encode_td_av1(uint8_t *p) { p[0] = 0x12; p[1] = 0x00; return EB_ErrorNone; }
EbLinkedListNode *concat_eb_linked_list(EbLinkedListNode *a, EbLinkedListNode *b) { (void)b; return a; }
void svt_av1_reset_cdf_symbol_counters(FRAME_CONTEXT *c) { (void)c; }
void svt_av1_get_time(uint64_t *s, uint64_t *u) { *s = vin64(); *u = vin64(); }
double svt_av1_compute_overall_elapsed_time_ms(uint64_t a, uint64_t b, uint64_t c, uint64_t d) { (void)a; (void)b; (void)c; (void)d; return 1.0; }
EbErrorType svt_block_on_mutex(EbHandle h) { (void)h; return EB_ErrorNone; }
EbErrorType svt_release_mutex(EbHandle h) { (void)h; return EB_ErrorNone; }

EbErrorType svt_get_full_object(EbFifo *f, EbObjectWrapper **w) {
    (void)f;
    if (delivered >= K) return EB_NoErrorFifoShutdown;
    *w = &w_ecr[arrival[delivered++]];
    return EB_ErrorNone;
}
EbErrorType svt_get_empty_object(EbFifo *f, EbObjectWrapper **w) {
    if (f == &f_out) { V_ASSERT(out_used < K + 1, "output pool"); V_ASSUME(out_used < K + 1); *w = &w_out[out_used++]; }
    else if (f == &f_rc) { *w = &w_rc[rc_used++ % K]; }
    else { *w = &w_pm[pm_used++ % K]; }
    return EB_ErrorNone;
}
EbErrorType svt_release_object(EbObjectWrapper *w) { (void)w; return EB_ErrorNone; }

/* -------- the oracle: every packet posted to the application -------- */
EbErrorType svt_post_full_object(EbObjectWrapper *w) {
    if (!(w >= &w_out[0] && w <= &w_out[K])) return EB_ErrorNone;      /* rate-control / picture-manager feedback */
    EbBufferHeaderType *o = (EbBufferHeaderType *)w->object_ptr;
    int j = n_packets++;
    V_ASSERT(!eos_seen, "no packet follows the packet that carries EOS");
    V_ASSERT(j < n_displayed_expected, "not more packets than displayed pictures");
    if (j >= n_displayed_expected) return EB_ErrorNone;
    V_ASSERT(o->n_filled_len >= 3 && o->n_filled_len <= o->n_alloc_len, "packet length within its buffer");
    V_ASSERT(o->p_buffer[0] == 0x12 && o->p_buffer[1] == 0x00, "packet starts with a temporal delimiter");
    V_ASSERT((o->flags & EB_BUFFERFLAG_HAS_TD) != 0, "temporal-delimiter flag set");
    /* parse the marker stream */
    uint32_t pos = 2; int nshown = 0, nshowex = 0, nframes = 0, saw_sps_before_key = 1, key_in_tu = 0, sps = 0;
    for (int guard = 0; guard < 4 * K + 4 && pos < o->n_filled_len; guard++) {
        uint8_t m = o->p_buffer[pos];
        if (m == 'S') { sps++; pos++; continue; }
        if (m & 0x80) {
            int idx = (m >> 1) & 0x1f; int sh = m & 1;
            V_ASSERT(idx < K, "frame marker intact"); if (idx >= K) break;
            int d = (int)(ppcs_(idx).decode_order - head_dec);
            V_ASSERT(d == last_dec + 1, "frames leave in decode order, none skipped or repeated"); last_dec = d;
            if (ppcs_(idx).frm_hdr.frame_type == KEY_FRAME) { key_in_tu = 1; if (!sps) saw_sps_before_key = 0; }
            nframes++; nshown += sh;
            if (sh) V_ASSERT(pos + (uint32_t)flen[idx] == o->n_filled_len, "the shown frame is the last frame of the temporal unit");
            pos += (uint32_t)flen[idx];
            continue;
        }
        if (m & 0x40) { nshowex++; pos++; continue; }
        V_ASSERT(0, "packet consists of whole OBUs only (no stray bytes)"); break;
    }
    V_ASSERT(pos == o->n_filled_len, "size of the packet equals the sum of its parts");
    V_ASSERT(nshown + nshowex == 1, "exactly one displayed frame (shown or show-existing) per packet");
    V_ASSERT(saw_sps_before_key, "sequence header precedes every key frame");
    V_ASSERT(o->pts == exp_pts[j] && o->dts == o->pts, "k-th packet carries the pts of the k-th displayed picture, dts == pts");
    V_ASSERT(o->p_app_private == (void *)(uintptr_t)(0x1000 + exp_pts[j]), "k-th packet carries the private pointer of the k-th displayed picture");
    V_ASSERT(((o->flags & EB_BUFFERFLAG_SHOW_EXT) != 0) == (exp_showex[j] != 0), "show-existing flag agrees with the packet");
    if (!exp_showex[j] && o->pic_type != EB_AV1_NON_REF_PICTURE)
        V_ASSERT((o->pic_type == EB_AV1_KEY_PICTURE) == (exp_key[j] != 0), "reported picture type KEY iff the packet carries a key frame");
    int want_eos = ectx.terminating_sequence_flag_received && j == n_displayed_expected - 1 && exp_dec[j] == (int)(ectx.terminating_picture_number - head_dec);
    V_ASSERT(((o->flags & EB_BUFFERFLAG_EOS) != 0) == (want_eos != 0), "EOS flag on exactly the last packet of the stream");
    if (o->flags & EB_BUFFERFLAG_EOS) eos_seen = 1;
    return EB_ErrorNone;
}

void harness(void) {
    /* window of K pictures in decode order head_dec .. head_dec+K-1; the reorder queue head sits at head_dec % depth,
       chosen so that the 2047 -> 0 wrap is inside the window for some choices */
    for (int i = 0; i < K; i++) {
        pcs_a[i] = (PictureControlSet *)malloc(sizeof(PictureControlSet)); ppcs_a[i] = (PictureParentControlSet *)malloc(sizeof(PictureParentControlSet));
        V_ASSUME(pcs_a[i] && ppcs_a[i]);
        ppcs_(i).reference_picture_wrapper_ptr = NULL; ppcs_(i).data_ll_head_ptr = NULL; ppcs_(i).app_out_data_ll_head_ptr = NULL;
        ppcs_(i).frame_end_cdf_update_mode = 0; ppcs_(i).picture_qp = 20; ppcs_(i).start_time_seconds = 0; ppcs_(i).start_time_u_seconds = 0;
        ppcs_(i).luma_ssim = ppcs_(i).cb_ssim = ppcs_(i).cr_ssim = 0; ppcs_(i).output_stream_wrapper_ptr = NULL; ppcs_(i).total_num_bits = 0;
        memset(&ppcs_(i).av1_ref_signal, 0, sizeof(Av1RpsNode)); ppcs_(i).frm_hdr.show_existing_frame = 0;
    }
    scs_p = (SequenceControlSet *)malloc(sizeof(SequenceControlSet));
    V_ASSUME(scs_p != NULL);
    scs.static_config.rate_control_mode = 0; scs.static_config.speed_control_flag = 0; scs.lap_enabled = 0; scs.enable_dec_order = 0;
    scs.static_config.rc_twopass_stats_in.sz = 0; scs.static_config.rc_twopass_stats_in.buf = NULL; scs.static_config.rc_firstpass_stats_out = 0;
    head_dec = HEAD;    /* concrete per query (a symbolic index into the 2048-entry queue makes every queue access a 2048-way case split) */
    ectx.packetization_reorder_queue_head_index = head_dec % PACKETIZATION_REORDER_QUEUE_MAX_DEPTH;
    static PacketizationReorderEntry *qarr[PACKETIZATION_REORDER_QUEUE_MAX_DEPTH];
    ectx.packetization_reorder_queue = qarr;
    for (int i = 0; i <= K; i++) {
        entries[i].bitstream_ptr = &ebs[i]; ebs[i].output_bitstream_ptr = &eobu[i]; eobu[i].buffer_begin_av1 = eobu[i].buffer_av1 = ebuf[i]; eobu[i].size = 24;
        entries[i].frame_type = (FrameType)vin_range(0, 3);            /* stale content left by the picture 2048 positions earlier */
        entries[i].show_frame = (EbBool)vinbool(); entries[i].has_show_existing = (EbBool)vinbool();
        entries[i].picture_number = head_dec + (uint32_t)i;
        qarr[(head_dec + (uint32_t)i) % PACKETIZATION_REORDER_QUEUE_MAX_DEPTH] = &entries[i];
    }
    scs.encode_context_ptr = &ectx; w_scs.object_ptr = &scs; ectx.stream_output_fifo_ptr = &f_out;
    scs.static_config.stat_report = (uint32_t)vinbool();
    pctx.entropy_coding_input_fifo_ptr = &f_in; pctx.rate_control_tasks_output_fifo_ptr = &f_rc; pctx.picture_manager_input_fifo_ptr = &f_pm;
    tctx.priv = &pctx;
    for (int i = 0; i <= K; i++) { w_out[i].object_ptr = &outbuf[i]; }
    for (int i = 0; i < K; i++) { w_rc[i].object_ptr = &rct[i]; w_pm[i].object_ptr = &pmr[i]; }
    /* GOP shape: each TU = hidden* shown; a shown picture may carry has_show_existing iff a hidden one is outstanding (<=1 outstanding) */
    int nd = 0; int64_t hidden_pts = 0; int hidden_idx = -1; int64_t next_pts = (int64_t)vin_range(0, 1000);
    int64_t pts_of[K];
    /* first pass: display order. A hidden picture is displayed (via show-existing) right after the shown picture that flags it. */
    for (int i = 0; i < K; i++) {
        int sh = (hid_outstanding && i == K - 1) ? 1 : vinbool();
        if (!sh && hid_outstanding) sh = 1;                      /* at most one outstanding hidden frame */
        shown[i] = sh;
        int hse = 0;
        if (sh && hid_outstanding) hse = vinbool();
        if (i == K - 1 && hid_outstanding) hse = 1;              /* window ends with everything displayed */
        if (i == K - 1 && !sh) { shown[i] = sh = 1; }
        ppcs_(i).has_show_existing = (EbBool)hse;
        if (!sh) { hid_outstanding = 1; hidden_idx = i; }
        else {
            pts_of[i] = next_pts++; exp_pts[nd] = pts_of[i]; exp_showex[nd] = 0; exp_dec[nd] = i; nd++;
            if (hse) { pts_of[hidden_idx] = next_pts++; exp_pts[nd] = pts_of[hidden_idx]; exp_showex[nd] = 1; exp_dec[nd] = i; nd++; hid_outstanding = 0; }
        }
    }
    V_ASSUME(!hid_outstanding);
    n_displayed_expected = nd;
    for (int i = 0; i < K; i++) {
        w_ecr[i].object_ptr = &ecr[i]; ecr[i].pcs_wrapper_ptr = &w_pcs[i]; w_pcs[i].object_ptr = &pcs_(i);
        pcs_(i).parent_pcs_ptr = &ppcs_(i); pcs_(i).scs_wrapper_ptr = &w_scs; pcs_(i).picture_parent_control_set_wrapper_ptr = &w_ppcs[i];
        pcs_(i).bitstream_ptr = &pbs[i]; pbs[i].output_bitstream_ptr = &pobu[i]; pobu[i].buffer_begin_av1 = pobu[i].buffer_av1 = pbuf[i]; pobu[i].size = 24;
        ppcs_(i).av1_cm = &cmn[i]; cmn[i].tiles_info.tile_rows = 1; cmn[i].tiles_info.tile_cols = 1;
        ppcs_(i).decode_order = head_dec + (uint32_t)i;
        pcs_(i).picture_number = (uint64_t)pts_of[i]; ppcs_(i).picture_number = pcs_(i).picture_number;
        ppcs_(i).input_ptr = &inbuf[i]; inbuf[i].pts = pts_of[i]; inbuf[i].p_app_private = (void *)(uintptr_t)(0x1000 + pts_of[i]);
        ppcs_(i).frm_hdr.show_frame = (uint8_t)shown[i];
        ppcs_(i).idr_flag = (EbBool)vinbool();
        int islice = ppcs_(i).idr_flag ? 1 : vinbool();
        pcs_(i).slice_type = islice ? I_SLICE : (vinbool() ? B_SLICE : P_SLICE);
        ppcs_(i).frm_hdr.frame_type = ppcs_(i).idr_flag ? KEY_FRAME : (islice ? INTRA_ONLY_FRAME : INTER_FRAME);
        if (ppcs_(i).idr_flag) V_ASSUME(shown[i]);                 /* key frames are shown (C19) */
        ppcs_(i).is_used_as_reference_flag = ppcs_(i).idr_flag ? EB_TRUE : (EbBool)vinbool();
        ppcs_(i).is_alt_ref = 0;
        flen[i] = (int)vin_range(1, 3);
        ppcs_(i).luma_sse = vin32(); ppcs_(i).cb_sse = vin32(); ppcs_(i).cr_sse = vin32();
    }
    for (int j = 0; j < nd; j++) { exp_key[j] = !exp_showex[j] && ppcs_(exp_dec[j]).frm_hdr.frame_type == KEY_FRAME; }
    /* EOS: optionally the last picture in decode order terminates the stream */
    ectx.terminating_sequence_flag_received = (EbBool)vinbool();
    ectx.terminating_picture_number = head_dec + K - 1;
    /* arrival order: the PERM-th permutation of 0..K-1 (one query per permutation: keeping the picture
       pointers concrete per kernel iteration is what makes the query tractable; everything else stays symbolic) */
    {
        int avail[K]; for (int i = 0; i < K; i++) avail[i] = i;
        int code = PERM, n = K;
        for (int i = 0; i < K; i++) { int pick = code % n; code /= n; arrival[i] = avail[pick]; for (int t = pick; t + 1 < n; t++) avail[t] = avail[t + 1]; n--; }
    }

    packetization_kernel(&tctx);

    V_ASSERT(n_packets == n_displayed_expected, "exactly one packet per displayed picture once every picture of the window has arrived");
    V_ASSERT(ectx.packetization_reorder_queue_head_index == (head_dec + K) % PACKETIZATION_REORDER_QUEUE_MAX_DEPTH, "queue head advanced past the window (modulo the queue depth)");
    if (ectx.terminating_sequence_flag_received) V_ASSERT(eos_seen, "EOS delivered");
    /* statistics copied iff reporting is on */
    for (int j = 0; j < out_used && j < K; j++) { (void)j; }
    V_END();
}
#ifndef VERIF_CBMC
int main(void) { harness(); puts("REPLAY-OK"); return 0; }
#endif
