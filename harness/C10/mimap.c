/* C10 (decoder frame-level mode-info map): the allocation of the 4x4 mode-info offset map (sliced verbatim from
 * init_master_frame_ctxt in EbDecMemInit.c, with the real EB_MALLOC_DEC macro) and the real update_block_nbrs of
 * EbDecNbr.c which the parser calls for every decoded block.  For a concrete frame size and superblock size and ANY
 * block position inside the superblock-aligned frame, the write into the map must stay inside the allocation. */
#include "verif.h"
#include "EbDefinitions.h"
#include "EbSvtAv1Dec.h"
#include "EbDecHandle.h"
#include "EbDecMemInit.h"
#include "EbObuParse.h"
#include "EbDecParseFrame.h"
EbMemoryMapEntry *svt_dec_memory_map; uint32_t *svt_dec_memory_map_index; uint64_t *svt_dec_total_lib_memory; uint32_t svt_dec_lib_malloc_count;
#include "c10_mimap.inc"   /* static EbErrorType alloc_mi_map(MainFrameBuf *main_frame_buf, int32_t sb_cols, int32_t sb_rows, int32_t sb_size_log2); void update_block_nbrs(...) */
#ifndef FW
#define FW 64
#define FH 128
#endif
#ifndef SBL
#define SBL 6
#endif
#ifndef BSZ
#define BSZ BLOCK_4X4
#endif
void harness(void) {
    EbDecHandle *h = (EbDecHandle *)malloc(sizeof *h); ParseCtxt *pc = (ParseCtxt *)malloc(sizeof *pc);
    uint32_t idx = 0; uint64_t tot = 0; EbMemoryMapEntry *sent = (EbMemoryMapEntry *)malloc(sizeof *sent);
    V_ASSUME(h && pc && sent);
    svt_dec_memory_map = sent; svt_dec_memory_map_index = &idx; svt_dec_total_lib_memory = &tot;
    /* superblock counts as dec_mem_init derives them from the sequence header's maximum frame size */
    int32_t sbs = 1 << SBL, sb_cols = (FW + sbs - 1) / sbs, sb_rows = (FH + sbs - 1) / sbs;
    EbErrorType e = alloc_mi_map(&h->main_frame_buf, sb_cols, sb_rows, SBL);
    V_ASSUME(e == EB_ErrorNone);
    /* any block the parser can visit: 4x4-aligned position inside the superblock-aligned frame, block inside its superblock */
    /* block size concrete per query (a symbolic size makes both loop bounds symbolic: out of memory at 14 GB) */
    BlockSize bs = (BlockSize)BSZ;
    int bw4 = mi_size_wide[bs], bh4 = mi_size_high[bs];
    int mi_row = (int)vin_range(0, sb_rows * (sbs >> 2) - 1), mi_col = (int)vin_range(0, sb_cols * (sbs >> 2) - 1);
    V_ASSUME(mi_row % bh4 == 0 && mi_col % bw4 == 0);
    V_ASSUME(mi_row + bh4 <= sb_rows * (sbs >> 2) && mi_col + bw4 <= sb_cols * (sbs >> 2));
    V_ASSUME(bw4 <= (sbs >> 2) && bh4 <= (sbs >> 2));
    pc->cur_mode_info_cnt = (int32_t)vin_range(0, 1023);
    update_block_nbrs(h, pc, mi_row, mi_col, bs);
    V_ASSERT(h->main_frame_buf.frame_mi_map.mi_rows_algnsb >= sb_rows * (sbs >> 2) && h->main_frame_buf.frame_mi_map.mi_cols_algnsb >= sb_cols * (sbs >> 2), "mode-info map covers every 4x4 unit of the superblock-aligned frame");
    V_END();
}
#ifndef VERIF_CBMC
int main(void) { harness(); puts("REPLAY-OK"); return 0; }
#endif
