/* C10 (spliced streams): when a second sequence header arrives, decode_multiple_obu decides whether the decoder's
 * frame-level memory must be allocated again.  The decision (the OBU_SEQUENCE_HEADER case, sliced verbatim, with the
 * sequence-header parser replaced by "any new header") is checked against the real allocators init_dec_mod_ctxt,
 * init_lf_ctxt and init_lr_ctxt of EbDecMemInit.c (sliced by name, real EB_MALLOC_DEC): if the old memory is kept,
 * every buffer these functions would allocate for the NEW header must not be larger than the one allocated for the
 * OLD header (2-safety: the allocators are their own specification of what the decoder needs). */
#include "verif.h"
#include <stdlib.h>
#include "EbDefinitions.h"
#include "EbPictureBufferDesc.h"
#include "EbSvtAv1Dec.h"
#include "EbDecHandle.h"
#include "EbDecProcessFrame.h"
#include "EbObuParse.h"
#include "EbDecParseFrame.h"
#include "EbDecMemInit.h"
#include "EbDecInverseQuantize.h"
#include "EbDecPicMgr.h"
#include "EbDecLF.h"
#include "EbUtility.h"
#include "EbDecRestoration.h"
EbMemoryMapEntry *svt_dec_memory_map; uint32_t *svt_dec_memory_map_index; uint64_t *svt_dec_total_lib_memory; uint32_t svt_dec_lib_malloc_count;
/* allocation recorder: sizes requested by the allocators, in order */
#define NREC 40
static size_t rec[2][NREC]; static int nrec[2]; static int cur;
static void *v_malloc(size_t n) { if (nrec[cur] < NREC) rec[cur][nrec[cur]] = n; nrec[cur]++; void *p = malloc(n); V_ASSUME(p != NULL); return p; }
void av1_inverse_qm_init(DecModCtxt *dec_mod_ctxt, SeqHeader *seq_header) { (void)dec_mod_ctxt; (void)seq_header; } /* fills constant tables, no allocation */
void dec_init_intra_predictors_12b_internal(void) {}
static void any_header(SeqHeader *s) {
    s->sb_size = vin_range(0, 1) ? BLOCK_128X128 : BLOCK_64X64; s->sb_size_log2 = s->sb_size == BLOCK_128X128 ? 7 : 6;
    s->max_frame_width = (uint16_t)vin_range(16, 4096); s->max_frame_height = (uint16_t)vin_range(16, 2304);
    s->color_config.bit_depth = (EbBitDepthEnum)(8 + 2 * vin_range(0, 2)); s->color_config.mono_chrome = (uint8_t)vin_range(0, 1);
    s->color_config.subsampling_x = (uint8_t)vin_range(0, 1); s->color_config.subsampling_y = (uint8_t)vin_range(0, 1);
    V_ASSUME(s->color_config.subsampling_x || !s->color_config.subsampling_y);   /* 4:4:0 does not exist in AV1 */
}
static EbErrorType v_new_seq_header(Bitstrm *bs, SeqHeader *s) { (void)bs; EbErrorType st = vin_range(0, 1) ? EB_Corrupt_Frame : EB_ErrorNone; any_header(s); return st; }
#define malloc(n) v_malloc(n)
#define read_sequence_header_obu v_new_seq_header
#include "c10_reinit.inc"  /* init_dec_mod_ctxt, init_lf_ctxt, init_lr_ctxt; static EbErrorType seq_header_case(EbDecHandle *dec_handle_ptr, Bitstrm bs) */
#undef malloc
#undef read_sequence_header_obu
static void alloc_all(EbDecHandle *h, int which) {
    cur = which; nrec[which] = 0;
    EbErrorType e = init_dec_mod_ctxt(h, &h->pv_dec_mod_ctxt); V_ASSUME(e == EB_ErrorNone);
    e = init_lf_ctxt(h); V_ASSUME(e == EB_ErrorNone);
    e = init_lr_ctxt(h); V_ASSUME(e == EB_ErrorNone);
}
void harness(void) {
    EbDecHandle *h = (EbDecHandle *)malloc(sizeof *h);
    uint32_t idx = 0; uint64_t tot = 0; EbMemoryMapEntry *sent = (EbMemoryMapEntry *)malloc(sizeof *sent);
    V_ASSUME(h && sent);
    svt_dec_memory_map = sent; svt_dec_memory_map_index = &idx; svt_dec_total_lib_memory = &tot;
    h->dec_config.threads = 1; h->is_16bit_pipeline = (EbBool)vin_range(0, 1);
    any_header(&h->seq_header);                 /* the header the memory was allocated for */
    alloc_all(h, 0);
    h->mem_init_done = 1; h->seq_header_done = 1;
    Bitstrm bs; bs.buf = NULL;
    EbErrorType st = seq_header_case(h, bs);    /* a second sequence header arrives */
    if (st == EB_ErrorNone && h->mem_init_done == 1) {
        alloc_all(h, 1);                        /* what the allocators would provide for the new header */
        V_ASSERT(nrec[1] <= nrec[0], "memory kept across a sequence-header change: no additional buffer is needed for the new header");
        for (int i = 0; i < NREC; i++)
            if (i < nrec[1] && i < nrec[0]) V_ASSERT(rec[1][i] <= rec[0][i], "memory kept across a sequence-header change: every buffer allocated for the old header is large enough for the new header");
    }
    V_END();
}
#ifndef VERIF_CBMC
int main(void) { harness(); puts("REPLAY-OK"); return 0; }
#endif
