/* C10: the decoder's OBU / sequence-header parser on arbitrary bytes.
 * svt_get_sequence_info (public API, EbDecParseObu.c) on a heap buffer of symbolic length n with exactly
 * n + SLACK bytes: SLACK=0 makes any read past the caller's data a pointer-check failure; SLACK=16 is the
 * variant that tolerates the bit reader's documented look-ahead (8 bytes loaded at initialisation plus word prefetches; the leb128 reader ignores the available size) (buf_max = data + numbytes + 8)
 * and still flags everything else (longer over-reads, undefined shifts, non-termination). */
#include "verif.h"
#include "Source/Lib/Decoder/Codec/EbDecBitstream.c"
#include "Source/Lib/Decoder/Codec/EbDecParseObu.c"
#ifndef NMAX
#define NMAX 12
#endif
#ifndef SLACK
#define SLACK 0
#endif
void harness(void) {
#ifdef NFIX
    size_t n = NFIX;      /* concrete length per query: a symbolic-size heap object makes every access an unbounded-array problem */
#else
    size_t n = (size_t)vin_range(1, NMAX);
#endif
    uint8_t *data = (uint8_t *)malloc(n + SLACK);
    V_ASSUME(data != NULL);
    for (size_t i = 0; i < NMAX + SLACK; i++) if (i < n + SLACK) data[i] = (i < n) ? vin8() : 0;
    SeqHeader sh; memset(&sh, 0, sizeof sh);
    EbErrorType r = svt_get_sequence_info(data, n, &sh);
    V_ASSERT(r == EB_ErrorNone || r == EB_ErrorBadParameter || r == EB_ErrorUndefined || r == EB_Corrupt_Frame || r == EB_DecUnsupportedBitstream || r == EB_ErrorInsufficientResources,
             "parser returns a documented status code");
#ifndef SEQ_BODY_STUBBED
    if (r == EB_ErrorNone) {
        V_ASSERT(sh.max_frame_width >= 1 && sh.max_frame_width <= 65536 && sh.max_frame_height >= 1 && sh.max_frame_height <= 65536, "accepted sequence header carries frame dimensions in the representable range");
        V_ASSERT(sh.order_hint_info.order_hint_bits <= 8, "order hint bits within the specification's range");
    }
#endif
    free(data);
    V_END();
}
#ifndef VERIF_CBMC
int main(void) { harness(); puts("REPLAY-OK"); return 0; }
#endif
