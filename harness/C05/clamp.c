#include "verif.h"
#include "common/enc_handle.h"
void harness(void) {
    EbSvtAv1EncConfiguration c; svt_svt_enc_init_parameter(&c);
    c.hierarchical_levels = (uint32_t)vin_range(0, 5); c.frame_rate = vin32();
    uint32_t cores = vin32(); EbInputResolution res = (EbInputResolution)vin_range(0, 6);
    int32_t n = set_parent_pcs(&c, cores, res);
    V_ASSERT(n >= (int32_t)((2u << c.hierarchical_levels) + 1), "at least one mini-GOP plus one picture buffers for every core count");
    V_ASSERT(n <= 3 * 120, "picture-buffer count bounded (3 seconds at the 120 fps cap)");
    V_END();
}
#ifndef VERIF_CBMC
int main(void) { harness(); puts("REPLAY-OK"); return 0; }
#endif
