/* C05: the real load_default_buffer_configuration_settings (EbEncHandle.c) derives ONLY parallel geometry
 * (pool sizes, process counts, segment grids) from the core count / pinning settings: every other field of the
 * sequence control set -- in particular the whole static configuration and the sequence header -- is left
 * untouched, for every core count, socket setting, resolution class and configuration.  The field list is
 * regenerated from the header (clang record layout); the geometry fields are recognised by name pattern. */
#include "verif.h"
#include "common/enc_handle.h"
long sysconf(int name) { (void)name; return (long)vin_range(1, 512); }   /* number of logical processors */
EbErrorType derive_input_resolution(EbInputResolution *r, uint32_t sz) { (void)sz; *r = (EbInputResolution)vin_range(0, 6); return EB_ErrorNone; }
CPU_FLAGS get_cpu_flags(void) { return (CPU_FLAGS)vin64(); }
CPU_FLAGS get_cpu_flags_to_use(void) { return (CPU_FLAGS)vin64(); }
void harness(void) {
    SequenceControlSet *scs = (SequenceControlSet *)malloc(sizeof *scs);     /* arbitrary prior state */
    V_ASSUME(scs != NULL);
    num_groups = (uint8_t)vin_range(1, 2);
    /* the inputs the function reads, as validation leaves them */
    scs->static_config.logical_processors = (uint32_t)vin_range(0, 512); scs->static_config.target_socket = (int32_t)vin_range(-1, 1); scs->static_config.unpin = (uint32_t)vinbool();
    scs->static_config.hierarchical_levels = (uint32_t)vin_range(0, 5); scs->static_config.frame_rate = (uint32_t)vin_range(1, 240 << 16);
    scs->static_config.intra_period_length = (int32_t)vin_range(-2, 1 << 30); scs->intra_period_length = scs->static_config.intra_period_length;
    scs->static_config.look_ahead_distance = (uint32_t)vin_range(0, 120); scs->static_config.super_block_size = vinbool() ? 128 : 64;
    scs->static_config.tile_rows = (int32_t)vin_range(0, 6); scs->static_config.tile_columns = (int32_t)vin_range(0, 4);
    scs->max_input_luma_width = (uint16_t)vin_range(64, 4096); scs->max_input_luma_height = (uint16_t)vin_range(64, 2160);
    scs->input_resolution = (EbInputResolution)vin_range(0, 6);
#define KEEP(f) __typeof__(scs->f) old_##__LINE__;
#include "c05_snapshot.inc"
    EbErrorType r = load_default_buffer_configuration_settings(scs);
    (void)r;
#include "c05_compare.inc"
    V_END();
}
#ifndef VERIF_CBMC
int main(void) { harness(); puts("REPLAY-OK"); return 0; }
#endif
