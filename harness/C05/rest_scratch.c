/* C05 (worker-private scratch must not carry data between tasks): the head of rest_kernel's task loop, sliced verbatim
 * from the task fetch to the call of restoration_seg_search.  A restoration worker owns a private copy of the
 * reconstruction (context_ptr->org_rec_frame); which (picture, segment) tasks a worker gets, and in which order,
 * depends on the number of workers and on scheduling.  The slice is run for an arbitrary task on a context whose
 * scratch was last filled for an ARBITRARY other picture: when the search starts, the scratch must have been
 * refreshed for the current picture.  All callees are monitors/stubs; the control flow between them is the real code. */
#include "verif.h"
#include "EbDefinitions.h"
#include "EbSequenceControlSet.h"
#include "EbPictureControlSet.h"
#include "EbEncDecResults.h"
#include "EbSystemResourceManager.h"
typedef struct RestContext { EbDctor dctor; EbFifo *rest_input_fifo_ptr; EbFifo *rest_output_fifo_ptr; EbFifo *picture_demux_fifo_ptr;
    EbPictureBufferDesc *trial_frame_rst; EbPictureBufferDesc *temp_lf_recon_picture_ptr; EbPictureBufferDesc *temp_lf_recon_picture16bit_ptr;
    EbPictureBufferDesc *org_rec_frame; int32_t *rst_tmpbuf; } RestContext;
static PictureControlSet *scratch_filled_for; static int searched; static PictureControlSet *CUR; static uint32_t CURSEG;
static EbObjectWrapper *next_task;
#undef EB_GET_FULL_OBJECT
#define EB_GET_FULL_OBJECT(fifo, wpp) do { *(wpp) = next_task; } while (0)
static void get_own_recon(SequenceControlSet *scs, PictureControlSet *pcs, RestContext *ctx, EbBool is16) { (void)scs; (void)ctx; (void)is16; scratch_filled_for = pcs; }
static int av1_superres_unscaled(const void *f) { (void)f; return vinbool(); }
static void svt_av1_superres_upscale_frame(Av1Common *cm, PictureControlSet *pcs, SequenceControlSet *scs) { (void)cm; (void)pcs; (void)scs; }
static void set_unscaled_input_16bit(PictureControlSet *pcs) { (void)pcs; }
static void link_eb_to_aom_buffer_desc(EbPictureBufferDesc *p, Yv12BufferConfig *b, uint16_t r, uint16_t btm, EbBool is16) { (void)p; (void)b; (void)r; (void)btm; (void)is16; }
static void restoration_seg_search(int32_t *tmp, Yv12BufferConfig *org, const Yv12BufferConfig *src, Yv12BufferConfig *trial, PictureControlSet *pcs, uint32_t seg) {
    (void)tmp; (void)org; (void)src; (void)trial;
    V_ASSERT(pcs == CUR && seg == CURSEG, "search runs for the task that was fetched");
    V_ASSERT(scratch_filled_for == pcs, "the worker's private reconstruction copy was refreshed for the current picture before the segment search reads it");
    searched++;
}
#include "c05_rest_head.inc"   /* static void rest_task_head(RestContext *context_ptr) */
void harness(void) {
    RestContext *ctx = (RestContext *)malloc(sizeof *ctx);
    PictureControlSet *pcs = (PictureControlSet *)malloc(sizeof *pcs), *other = (PictureControlSet *)malloc(sizeof *other);
    PictureParentControlSet *ppcs = (PictureParentControlSet *)malloc(sizeof *ppcs); SequenceControlSet *scs = (SequenceControlSet *)malloc(sizeof *scs);
    Av1Common *cm = (Av1Common *)malloc(sizeof *cm); EbPictureBufferDesc *enh = (EbPictureBufferDesc *)malloc(sizeof *enh);
    EbObjectWrapper *w = (EbObjectWrapper *)malloc(sizeof *w), *pw = (EbObjectWrapper *)malloc(sizeof *pw), *sw = (EbObjectWrapper *)malloc(sizeof *sw);
    CdefResults *res = (CdefResults *)malloc(sizeof *res);
    V_ASSUME(ctx && pcs && other && ppcs && scs && cm && enh && w && pw && sw && res);
    w->object_ptr = res; res->pcs_wrapper_ptr = pw; pw->object_ptr = pcs; pcs->scs_wrapper_ptr = sw; sw->object_ptr = scs; pcs->parent_pcs_ptr = ppcs; ppcs->av1_cm = cm;
    ppcs->enhanced_unscaled_picture_ptr = enh;
    res->segment_index = vin32(); CUR = pcs; CURSEG = res->segment_index;
    scs->seq_header.enable_restoration = (uint8_t)vinbool(); ppcs->frm_hdr.allow_intrabc = (uint8_t)vinbool();
    scs->static_config.encoder_bit_depth = vinbool() ? EB_10BIT : EB_8BIT; scs->static_config.is_16bit_pipeline = (EbBool)vinbool();
    scs->max_input_pad_right = vin16(); scs->max_input_pad_bottom = vin16();
    /* what the worker did before: nothing, this picture, or any other picture */
    int prev = (int)vin_range(0, 2); scratch_filled_for = prev == 0 ? NULL : prev == 1 ? pcs : other;
    next_task = w;
    rest_task_head(ctx);
    V_ASSERT(searched == ((scs->seq_header.enable_restoration && ppcs->frm_hdr.allow_intrabc == 0) ? 1 : 0), "segment search runs exactly when restoration is enabled for the frame");
    V_END();
}
#ifndef VERIF_CBMC
int main(void) { harness(); puts("REPLAY-OK"); return 0; }
#endif
