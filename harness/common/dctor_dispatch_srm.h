/* CBMC resolves every `obj->dctor(obj)` to a case split over ALL functions of type void(void*),
 * which makes the destructor chain of the resource manager explode (spurious recursion).
 * Here the indirect call of EB_DELETE_UNCHECKED is replaced, per static type, by an ASSERTION that the
 * dctor field holds the type's own destructor followed by a direct call -- equivalent whenever the
 * assertion holds, and the assertion is part of the claim. Types without an entry keep the indirect call. */
#ifndef DCTOR_DISPATCH_SRM_H
#define DCTOR_DISPATCH_SRM_H
#include "EbSystemResourceManager.h"
static void svt_fifo_dctor(EbPtr p);
static void svt_circular_buffer_dctor(EbPtr p);
void svt_muxing_queue_dctor(EbPtr p);
void svt_object_wrapper_dctor(EbPtr p);
static void svt_system_resource_dctor(EbPtr p);
#define V_DCT_MSG "dctor field holds the destructor installed by the object's constructor"
static inline void v_del_fifo(EbFifo *o) { V_ASSERT(o->dctor == svt_fifo_dctor, V_DCT_MSG); svt_fifo_dctor(o); }
static inline void v_del_cb(EbCircularBuffer *o) { V_ASSERT(o->dctor == svt_circular_buffer_dctor, V_DCT_MSG); svt_circular_buffer_dctor(o); }
static inline void v_del_mq(EbMuxingQueue *o) { V_ASSERT(o->dctor == svt_muxing_queue_dctor, V_DCT_MSG); svt_muxing_queue_dctor(o); }
static inline void v_del_ow(EbObjectWrapper *o) { V_ASSERT(o->dctor == svt_object_wrapper_dctor, V_DCT_MSG); svt_object_wrapper_dctor(o); }
static inline void v_del_sr(EbSystemResource *o) { V_ASSERT(o->dctor == svt_system_resource_dctor, V_DCT_MSG); svt_system_resource_dctor(o); }
#ifndef V_PAYLOAD_DCTOR
#define V_PAYLOAD_DCTOR(o) do { V_ASSERT(0, "payload objects in this harness have no destructor"); } while (0)
#endif
static inline void v_del_other(void *o) { V_PAYLOAD_DCTOR(o); }
#undef EB_DELETE_UNCHECKED
#define EB_DELETE_UNCHECKED(pobj)                               \
    do {                                                        \
        if ((pobj)->dctor)                                      \
            _Generic((pobj),                                    \
                EbFifo *: v_del_fifo((void *)(pobj)),           \
                EbCircularBuffer *: v_del_cb((void *)(pobj)),   \
                EbMuxingQueue *: v_del_mq((void *)(pobj)),      \
                EbObjectWrapper *: v_del_ow((void *)(pobj)),    \
                EbSystemResource *: v_del_sr((void *)(pobj)),   \
                default: v_del_other((void *)(pobj)));          \
        EB_FREE((pobj));                                        \
    } while (0)
#endif
