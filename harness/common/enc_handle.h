/* Pulls the real EbEncHandle.c into the harness TU so that its statics are reachable. */
#ifndef ENC_HANDLE_INC
#define ENC_HANDLE_INC
#include "Source/Lib/Encoder/Globals/EbEncHandle.c"
#endif
