/* Allocation-fault model: every malloc/calloc/realloc/posix_memalign of the real code included AFTER
 * this header goes through v_*: when v_alloc_fail is set each request fails nondeterministically
 * (a superset of "exactly the k-th fails"); live allocations are counted so that leak-freedom is an
 * assertion that also works in the gcc replay build. */
#ifndef ALLOC_MODEL_H
#define ALLOC_MODEL_H
#include <stdlib.h>
#include <string.h>
#include <errno.h>
int v_alloc_fail, v_alloc_live, v_alloc_failures, v_alloc_requests;
static int v_should_fail(void) { v_alloc_requests++; if (v_alloc_fail && vinbool()) { v_alloc_failures++; return 1; } return 0; }
static void *v_malloc(size_t n) { if (v_should_fail()) return NULL; void *p = malloc(n); V_ASSUME(p != NULL); v_alloc_live++; return p; }
static void *v_calloc(size_t c, size_t n) { if (v_should_fail()) return NULL; void *p = calloc(c, n); V_ASSUME(p != NULL); v_alloc_live++; return p; }
static void *v_realloc(void *o, size_t n) { if (v_should_fail()) return NULL; void *p = realloc(o, n); V_ASSUME(p != NULL); if (!o) v_alloc_live++; return p; }
static int v_posix_memalign(void **pp, size_t a, size_t n) { (void)a; if (v_should_fail()) return ENOMEM; void *p = malloc(n); V_ASSUME(p != NULL); *pp = p; v_alloc_live++; return 0; }
static void v_free(void *p) { if (p) v_alloc_live--; free(p); }
#define malloc(n) v_malloc(n)
#define calloc(c, n) v_calloc(c, n)
#define realloc(o, n) v_realloc(o, n)
#define posix_memalign(pp, a, n) v_posix_memalign(pp, a, n)
#define free(p) v_free(p)
#endif
