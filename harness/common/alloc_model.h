/* Allocation-fault model: every malloc/calloc/realloc/posix_memalign of the real code included AFTER
 * this header goes through v_*: when armed, exactly one request -- the k-th, k a solver variable -- fails
 * ("exactly the k-th request fails", k symbolic); live allocations are counted so that leak-freedom is an
 * assertion that also works in the gcc replay build. */
#ifndef ALLOC_MODEL_H
#define ALLOC_MODEL_H
#include <stdlib.h>
#include <string.h>
#include <errno.h>
int v_alloc_fail, v_alloc_live, v_alloc_failures, v_alloc_requests;
long v_fail_at = -1;   /* index (over allocations AND OS-object creations) of the single request that fails; -1: none */
static int v_should_fail(void) {
    long k = v_alloc_requests++;
    if (v_alloc_fail && k == v_fail_at) { v_alloc_failures++; return 1; }
    return 0;
}
/* call once before the code under test: exactly one request (the k-th, k symbolic in [0,max]) fails, or none (k == max) */
static void v_arm_single_failure(long max) { v_fail_at = (long)vin_range(0, max); v_alloc_fail = 1; }
static void v_arm_single_failure_in(long lo, long hi) { v_fail_at = (long)vin_range(lo, hi); v_alloc_fail = 1; }
static void *v_malloc(size_t n) { if (v_should_fail()) return NULL; void *p = malloc(n); V_ASSUME(p != NULL); v_alloc_live++; return p; }
static void *v_calloc(size_t c, size_t n) { if (v_should_fail()) return NULL; void *p = calloc(c, n); V_ASSUME(p != NULL); v_alloc_live++; return p; }
static void *v_realloc(void *o, size_t n) { if (v_should_fail()) return NULL; void *p = realloc(o, n); V_ASSUME(p != NULL); if (!o) v_alloc_live++; return p; }
static int v_posix_memalign(void **pp, size_t a, size_t n) { (void)a; if (v_should_fail()) return ENOMEM; void *p = malloc(n); V_ASSUME(p != NULL); *pp = p; v_alloc_live++; return 0; }
static void v_free(void *p) { if (p) v_alloc_live--; free(p); }
#define malloc(n) v_malloc(n)
#define calloc(c, n) v_calloc(c, n)
#define realloc(o, n) v_realloc(o, n)
#define posix_memalign(pp, a, n) v_posix_memalign(pp, a, n)
#define free(p) v_free(p)
#endif
