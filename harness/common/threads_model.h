/* Model of EbThreads.c for sequential symbolic execution.
 * mutex     : held flag + owner; acquiring a held mutex is a deadlock in a sequential schedule
 * semaphore : counter; waiting on 0 calls V_SEM_BLOCKED (the harness's scheduler) until the count is positive
 * Every create/destroy is counted so that teardown checks can assert nothing is left.
 * The harness may define V_YIELD(why,obj) (scheduling point) and V_SEM_BLOCKED(sem) before including this. */
#ifndef THREADS_MODEL_H
#define THREADS_MODEL_H
#include "EbThreads.h"
typedef struct VSync { int kind; int held; int owner; unsigned count, max; } VSync;
/* Handles are small integers disguised as pointers (index+1 into a static pool): no dynamic objects,
 * no pointer aliasing for the solver to reason about. */
#ifndef V_SYNC_POOL
#define V_SYNC_POOL 48
#endif
static VSync v_pool[V_SYNC_POOL];
static int v_pool_n;
static VSync *v_obj(EbHandle h) {
    uintptr_t i = (uintptr_t)h;
    V_ASSERT(i >= 1 && i <= (uintptr_t)V_SYNC_POOL, "valid synchronisation-object handle");
    V_ASSUME(i >= 1 && i <= (uintptr_t)V_SYNC_POOL);
    return &v_pool[i - 1];
}
static EbHandle v_new(int kind, unsigned count, unsigned max) {
    V_ASSERT(v_pool_n < V_SYNC_POOL, "harness synchronisation-object pool large enough");
    V_ASSUME(v_pool_n < V_SYNC_POOL);
    VSync *o = &v_pool[v_pool_n++];
    o->kind = kind; o->held = 0; o->owner = -1; o->count = count; o->max = max;
    return (EbHandle)(uintptr_t)v_pool_n;
}
int v_live_mutex, v_live_sem, v_live_thread;
int v_cur_thread = -1;
int v_create_may_fail = 0;   /* harness switch: creation of OS objects takes part in the single-failure schedule of alloc_model.h (C16) */
#ifdef ALLOC_MODEL_H
#define V_CREATE_FAILS() (v_create_may_fail && v_should_fail())
#else
#define V_CREATE_FAILS() (v_create_may_fail && vinbool())
#endif
#ifndef V_YIELD
#define V_YIELD(why, obj) do { } while (0)
#endif
#ifndef V_SEM_BLOCKED
/* default: a wait on an empty semaphore with no scheduler can never be satisfied */
#define V_SEM_BLOCKED(s) do { V_ASSERT(0, "blocking wait on an empty semaphore in a sequential context (would block forever)"); V_ASSUME(0); } while (0)
#endif
#ifndef V_MUTEX_CONTENDED
#define V_MUTEX_CONTENDED(m) do { V_ASSERT(0, "mutex acquired while already held (self-deadlock / missing unlock)"); V_ASSUME(0); } while (0)
#endif
EbHandle svt_create_mutex(void) {
    if (V_CREATE_FAILS()) return NULL;
    v_live_mutex++;
    return v_new(1, 0, 0);
}
EbErrorType svt_destroy_mutex(EbHandle h) {
    VSync *m = v_obj(h);
    V_ASSERT(m->kind == 1, "destroy_mutex on a mutex");
    V_ASSERT(!m->held, "mutex destroyed while held");
    m->kind = 0; v_live_mutex--;
    return EB_ErrorNone;
}
EbErrorType svt_block_on_mutex(EbHandle h) {
    VSync *m = v_obj(h);
    V_YIELD(1, m);
    V_ASSERT(m->kind == 1, "lock of a live mutex");
    if (m->held) V_MUTEX_CONTENDED(m);
    m->held = 1; m->owner = v_cur_thread;
    return EB_ErrorNone;
}
EbErrorType svt_release_mutex(EbHandle h) {
    VSync *m = v_obj(h);
    V_ASSERT(m->kind == 1 && m->held, "unlock of a mutex that is held");
    m->held = 0; m->owner = -1;
    V_YIELD(2, m);
    return EB_ErrorNone;
}
EbHandle svt_create_semaphore(uint32_t initial_count, uint32_t max_count) {
    if (V_CREATE_FAILS()) return NULL;
    v_live_sem++;
    return v_new(2, initial_count, max_count);
}
EbErrorType svt_destroy_semaphore(EbHandle h) {
    VSync *s = v_obj(h);
    V_ASSERT(s->kind == 2, "destroy_semaphore on a semaphore");
    s->kind = 0; v_live_sem--;
    return EB_ErrorNone;
}
EbErrorType svt_post_semaphore(EbHandle h) {
    VSync *s = v_obj(h);
    V_ASSERT(s->kind == 2, "post on a live semaphore");
    s->count++;
    V_YIELD(3, s);
    return EB_ErrorNone;
}
EbErrorType svt_block_on_semaphore(EbHandle h) {
    VSync *s = v_obj(h);
    V_ASSERT(s->kind == 2, "wait on a live semaphore");
    V_YIELD(4, s);
    while (s->count == 0) V_SEM_BLOCKED(s);
    s->count--;
    return EB_ErrorNone;
}
#endif
