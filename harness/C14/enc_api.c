/* C14: encoder API entry points with NULL arguments and the configuration mutex protocol.
 * Real EbEncHandle.c; the pipeline behind the handle is replaced by stubs (listed in META). */
#include "verif.h"
#include "common/enc_handle.h"

/* ---- environment models ------------------------------------------------ */
static int mtx_cfg;  /* 0 free, 1 held */
EbErrorType svt_block_on_mutex(EbHandle h) {
    int *m = (int *)h;
    V_ASSERT(*m == 0, "mutex acquired while still held by an earlier API call: this call blocks forever");
    *m = 1;
    return EB_ErrorNone;
}
EbErrorType svt_release_mutex(EbHandle h) {
    int *m = (int *)h;
    V_ASSERT(*m == 1, "release of a mutex that is not held");
    *m = 0;
    return EB_ErrorNone;
}
static EbObjectWrapper g_wr_out, g_wr_in, g_wr_rec;
static EbBufferHeaderType g_pkt, g_in, g_rec;
EbErrorType svt_get_full_object_non_blocking(EbFifo *f, EbObjectWrapper **w) {
    (void)f; *w = vinbool() ? &g_wr_out : NULL; return EB_ErrorNone;
}
EbErrorType svt_get_full_object(EbFifo *f, EbObjectWrapper **w) { (void)f; *w = &g_wr_out; return EB_ErrorNone; }
EbErrorType svt_get_empty_object(EbFifo *f, EbObjectWrapper **w) { (void)f; *w = &g_wr_in; return EB_ErrorNone; }
EbErrorType svt_post_full_object(EbObjectWrapper *w) { (void)w; return EB_ErrorNone; }
EbErrorType svt_release_object(EbObjectWrapper *w) { (void)w; return EB_ErrorNone; }
EbErrorType prediction_structure_group_ctor(PredictionStructureGroup *p, int8_t enc_mode, EbSvtAv1EncConfiguration *c) {
    (void)p; (void)enc_mode; (void)c; return vinbool() ? EB_ErrorNone : EB_ErrorInsufficientResources;
}
static PredictionStructure g_ps;
PredictionStructure *get_prediction_structure(PredictionStructureGroup *g, EbPred p, uint32_t r, uint32_t l) {
    (void)g; (void)p; (void)r; (void)l; return &g_ps;
}
#ifdef VERIF_CBMC /* the replay build keeps libc's sysconf (the sanitizer runtime needs it) */
long sysconf(int name) { (void)name; return (long)vin_range(1, 256); }
#endif
EbErrorType encode_sps_av1(Bitstream *b, SequenceControlSet *s) { (void)b; (void)s; return EB_ErrorNone; }
EbErrorType output_bitstream_reset(OutputBitstreamUnit *b) { b->buffer_av1 = b->buffer_begin_av1; return EB_ErrorNone; }
void svt_memcpy_app(void *dst, const void *src, size_t n) { memcpy(dst, src, n); }
EbErrorType derive_input_resolution(EbInputResolution *r, uint32_t sz) { (void)sz; *r = (EbInputResolution)vin_range(0, 6); return EB_ErrorNone; }
CPU_FLAGS get_cpu_flags(void) { return (CPU_FLAGS)vin64(); }
CPU_FLAGS get_cpu_flags_to_use(void) { return (CPU_FLAGS)vin64(); }
void svt_print_alloc_fail(const char *f, int l) { (void)f; (void)l; }

/* ---- a handle in the state left by svt_av1_enc_init_handle ------------- */
static EbComponentType comp;
static EbEncHandle H;
static EbSequenceControlSetInstance inst, *instp = &inst;
static SequenceControlSet *scs_p;   /* calloc'ed (a 200 kB static would be zero-initialised field by field) */
#define scs (*scs_p)
static EncodeContext ectx;
static EbFifo fifo_in, fifo_out, fifo_rec;
#ifdef SCS_STATIC
/* typed heap object with arbitrary contents (malloc): no zero-initialisation constraints to convert, cheap
   field accesses, and a more general pre-state (set_parameter may run on a previously used scs) --
   the right trade for the queries that run all of copy_api_from_app/verify_settings on it */
static void mk_scs(void) { if (!scs_p) { scs_p = (SequenceControlSet *)malloc(sizeof(SequenceControlSet)); V_ASSUME(scs_p != NULL); } }
#else
static void mk_scs(void) { if (!scs_p) { scs_p = (SequenceControlSet *)calloc(1, sizeof(SequenceControlSet)); V_ASSUME(scs_p != NULL); } }
#endif
static EbComponentType *mk_handle(void) {
    mk_scs();
    comp.p_component_private = &H;
    H.scs_instance_array = &instp;
    inst.scs_ptr = &scs; inst.encode_context_ptr = &ectx; inst.config_mutex = &mtx_cfg;
    H.input_buffer_producer_fifo_ptr = &fifo_in;
    H.output_stream_buffer_consumer_fifo_ptr = &fifo_out;
    H.output_recon_buffer_consumer_fifo_ptr = &fifo_rec;
    g_wr_out.object_ptr = (void *)&g_pkt; g_wr_in.object_ptr = (void *)&g_in; g_wr_rec.object_ptr = (void *)&g_rec;
    scs.static_config.recon_enabled = vinbool();
    scs.max_input_luma_width = 64; scs.max_input_luma_height = 64;
    return &comp;
}
#define ERR(r) V_ASSERT((r) != EB_ErrorNone, "API call with a NULL argument returns an error code")

void n_init(void)            { ERR(svt_av1_enc_init(NULL)); V_END(); }
void n_deinit(void)          { ERR(svt_av1_enc_deinit(NULL)); V_END(); }
void n_init_handle(void)     { EbSvtAv1EncConfiguration c; ERR(svt_av1_enc_init_handle(NULL, NULL, &c)); V_END(); }
void n_deinit_handle(void)   { ERR(svt_av1_enc_deinit_handle(NULL)); V_END(); }
void n_setparam_h(void)      { EbSvtAv1EncConfiguration c; svt_svt_enc_init_parameter(&c); ERR(svt_av1_enc_set_parameter(NULL, &c)); V_END(); }
void n_setparam_cfg(void)    { ERR(svt_av1_enc_set_parameter(mk_handle(), NULL)); V_ASSERT(mtx_cfg == 0, "configuration mutex released on return"); V_END(); }
void n_hdr_h(void)           { EbBufferHeaderType *o = NULL; ERR(svt_av1_enc_stream_header(NULL, &o)); V_END(); }
void n_hdr_out(void)         { ERR(svt_av1_enc_stream_header(mk_handle(), NULL)); V_END(); }
void n_hdr_release(void)     { ERR(svt_av1_enc_stream_header_release(NULL)); V_END(); }
void n_send_h(void)          { EbBufferHeaderType b; memset(&b, 0, sizeof b); ERR(svt_av1_enc_send_picture(NULL, &b)); V_END(); }
void n_send_buf(void)        { EbComponentType *h = mk_handle(); EbErrorType r = svt_av1_enc_send_picture(h, NULL); V_ASSERT(r == EB_ErrorNone || r == EB_ErrorBadParameter, "NULL picture header handled (documented status)"); V_END(); }
void n_getpkt_h(void)        { EbBufferHeaderType *p = NULL; unsigned char d = (unsigned char)vinbool(); ERR(svt_av1_enc_get_packet(NULL, &p, d)); V_END(); }
void n_getpkt_buf(void)      { EbComponentType *h = mk_handle(); unsigned char d = (unsigned char)vinbool(); ERR(svt_av1_enc_get_packet(h, NULL, d)); V_END(); }
void n_release_null(void)    { svt_av1_enc_release_out_buffer(NULL); V_END(); }
void n_release_pnull(void)   { EbBufferHeaderType *p = NULL; svt_av1_enc_release_out_buffer(&p); V_END(); }
void n_recon_h(void)         { EbBufferHeaderType b; memset(&b, 0, sizeof b); ERR(svt_av1_get_recon(NULL, &b)); V_END(); }
void n_recon_buf(void)       { ERR(svt_av1_get_recon(mk_handle(), NULL)); V_END(); }
void n_info_h(void)          { SvtAv1FixedBuf f; ERR(svt_av1_enc_get_stream_info(NULL, SVT_AV1_STREAM_INFO_FIRST_PASS_STATS_OUT, &f)); V_END(); }
void n_info_out(void)        { ERR(svt_av1_enc_get_stream_info(mk_handle(), SVT_AV1_STREAM_INFO_FIRST_PASS_STATS_OUT, NULL)); V_END(); }

static uint8_t v_some_buffer[16];
#if __has_include("c14_fill.inc")
#include "c14_fill.inc"
#else
static void fill_config(EbSvtAv1EncConfiguration *c) { vin_fill(c, sizeof *c); }
#endif
/* ---- M: a rejected configuration leaves the handle usable -------------- */
void m_reject_then_accept(void) {
    EbComponentType *h = mk_handle();
    EbSvtAv1EncConfiguration bad, good;
    fill_config(&bad);   /* arbitrary configuration, field by field */
    V_ASSUME(!bad.enable_manual_pred_struct);   /* manual prediction structures: separate (thorough) query */
    EbErrorType r1 = svt_av1_enc_set_parameter(h, &bad);
    V_ASSERT(mtx_cfg == 0, "configuration mutex released when set_parameter returns (any outcome)");
    svt_svt_enc_init_parameter(&good);
    uint32_t w2 = (uint32_t)vin_range(0, 100), h2 = (uint32_t)vin_range(0, 100);
    good.source_width = 64 + 2 * w2; good.source_height = 64 + 2 * h2;
    EbErrorType r2 = svt_av1_enc_set_parameter(h, &good);
    V_ASSERT(mtx_cfg == 0, "configuration mutex released after the second set_parameter");
    V_ASSERT(r2 == EB_ErrorNone || r2 == EB_ErrorInsufficientResources, "valid configuration accepted after an earlier rejected one");
    (void)r1;
    V_END();
}
/* ---- S: validation of an arbitrary configuration is itself free of undefined behaviour ---- */
void s_validate_arbitrary_config(void) {
    EbSvtAv1EncConfiguration cfg;
    mk_scs();
    fill_config(&cfg);
#ifndef MANUAL_PS_MAX
#define MANUAL_PS_MAX 2
#endif
    /* bound: valid manual prediction structures longer than MANUAL_PS_MAX entries are outside the claim
       (out-of-range entry counts, negative included, stay inside) */
    V_ASSUME(cfg.manual_pred_struct_entry_num <= MANUAL_PS_MAX || cfg.manual_pred_struct_entry_num > 32);
#ifdef NO_MANUAL_PS
    V_ASSUME(!cfg.enable_manual_pred_struct);     /* the manual prediction structure is the subject of the *_manual_ps query */
#endif
#ifdef ONLY_MANUAL_PS
    { EbSvtAv1EncConfiguration d; svt_svt_enc_init_parameter(&d);   /* everything but the manual prediction structure at its default */
      d.enable_manual_pred_struct = cfg.enable_manual_pred_struct; d.manual_pred_struct_entry_num = cfg.manual_pred_struct_entry_num;
      memcpy(d.pred_struct, cfg.pred_struct, sizeof d.pred_struct); d.source_width = 64; d.source_height = 64; cfg = d; }
#endif
    set_default_configuration_parameters(&scs);
    copy_api_from_app(&scs, &cfg);
    EbErrorType r = verify_settings(&scs);
    V_ASSERT(r == EB_ErrorNone || r == EB_ErrorBadParameter, "validation returns accept or EB_ErrorBadParameter");
    V_END();
}
#ifndef VERIF_CBMC
#define STR2(x) #x
#define STR(x) STR2(x)
int main(void) { V_ENTRY(); puts("REPLAY-OK"); return 0; }
#endif
