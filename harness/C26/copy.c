#include "verif.h"
#include "EbDefinitions.h"
#include "EbSequenceControlSet.h"
#include "EbPictureControlSet.h"
#include "EbUtility.h"
#include "c26_copy.inc"
void harness(void) {
    SequenceControlSet *scs = (SequenceControlSet *)malloc(sizeof *scs); PictureControlSet *pcs = (PictureControlSet *)malloc(sizeof *pcs);
    PictureParentControlSet *ppcs = (PictureParentControlSet *)malloc(sizeof *ppcs); EbBufferHeaderType *o = (EbBufferHeaderType *)malloc(sizeof *o);
    V_ASSUME(scs && pcs && ppcs && o);
    pcs->parent_pcs_ptr = ppcs; scs->static_config.stat_report = (uint32_t)vinbool();
    ppcs->luma_sse = (__typeof__(ppcs->luma_sse))vin64(); ppcs->cb_sse = (__typeof__(ppcs->cb_sse))vin64(); ppcs->cr_sse = (__typeof__(ppcs->cr_sse))vin64();   /* whatever width the fields have */ ppcs->luma_ssim = 0; ppcs->cb_ssim = 0; ppcs->cr_ssim = 0;
    o->luma_sse = vin32(); o->cb_sse = vin32(); o->cr_sse = vin32();     /* stale packet contents */
    copy_stats(scs, pcs, o);
    if (scs->static_config.stat_report) V_ASSERT(o->luma_sse == (uint32_t)ppcs->luma_sse && o->cb_sse == (uint32_t)ppcs->cb_sse && o->cr_sse == (uint32_t)ppcs->cr_sse, "packet carries the picture's SSE values as 32-bit values (modulo 2^32) when reporting is on");
    else V_ASSERT(o->luma_sse == 0 && o->cb_sse == 0 && o->cr_sse == 0, "packet statistics are zero when reporting is off");
    V_END();
}
#ifndef VERIF_CBMC
int main(void) { harness(); puts("REPLAY-OK"); return 0; }
#endif
