/* C26: psnr_calculations (EbEncDecProcess.c, sliced by name), 8-bit branch: the three SSE values it stores
 * are the sums of squared differences between the submitted picture's visible samples and the
 * reconstruction's visible samples, as 32-bit values -- for every sample value, stride, origin, for
 * reference and non-reference pictures and with / without a temporally filtered source. */
#include "verif.h"
#include "EbDefinitions.h"
#include "EbSequenceControlSet.h"
#include "EbPictureControlSet.h"
#include "EbReferenceObject.h"
#include "EbPictureBufferDesc.h"
#include "EbMalloc.h"
#include "EbUtility.h"
void svt_print_alloc_fail(const char *f, int l) { (void)f; (void)l; }
/* Squaring is abstracted to an arbitrary function of the difference (a 511-entry table with arbitrary contents):
 * the claim "SSE == sum over the visible samples of f(source - recon)" for EVERY f contains the claim for
 * f(d) = d*d, and needs no multipliers in the solver query.  That SQR(x) is x*x is a separate one-line query. */
static int64_t SQT[511];
static int64_t sq_model(int64_t d) { V_ASSERT(d >= -255 && d <= 255, "8-bit sample difference in range"); return SQT[(d < -255 || d > 255) ? 0 : d + 255]; }
#ifndef CHECK_SQR_MACRO
#undef SQR
#define SQR(x) sq_model((int64_t)(x))
#endif
#include "c26_psnr.inc"
#ifndef VW
#define VW 6
#endif
#ifndef VH
#define VH 4
#endif
#ifndef TF
#define TF 0
#define ISREF 0
#endif
#ifndef ORIGX
#define ORIGX 2
#define ORIGY 2
#endif
#define PW 8     /* padded to a multiple of 8 */
#define PH 8
static uint8_t *plane(uint32_t stride, uint32_t rows) { uint8_t *p = (uint8_t *)malloc((size_t)stride * rows); V_ASSUME(p != NULL); for (uint32_t i = 0; i < 16 * 16; i++) if (i < stride * rows) p[i] = vin8(); return p; }
static void mk_desc(EbPictureBufferDesc *d) {
    d->origin_x = ORIGX; d->origin_y = ORIGY;      /* concrete per query: symbolic plane offsets make every sample access a symbolic-index read */
    d->width = PW; d->height = PH; d->max_width = PW; d->max_height = PH;
    d->stride_y = (uint16_t)(PW + 2 * d->origin_x); d->stride_cb = d->stride_cr = d->stride_y / 2;
    uint32_t rows = PH + 2 * d->origin_y;
    d->buffer_y = plane(d->stride_y, rows); d->buffer_cb = plane(d->stride_cb, rows / 2); d->buffer_cr = plane(d->stride_cr, rows / 2);
}
void harness(void) {
    SequenceControlSet *scs = (SequenceControlSet *)malloc(sizeof *scs);
    PictureControlSet *pcs = (PictureControlSet *)malloc(sizeof *pcs);
    PictureParentControlSet *ppcs = (PictureParentControlSet *)malloc(sizeof *ppcs);
    EbReferenceObject *ro = (EbReferenceObject *)malloc(sizeof *ro);
    EbObjectWrapper *rw = (EbObjectWrapper *)malloc(sizeof *rw);
    EbPictureBufferDesc *in = (EbPictureBufferDesc *)malloc(sizeof *in), *rec = (EbPictureBufferDesc *)malloc(sizeof *rec);
    V_ASSUME(scs && pcs && ppcs && ro && rw && in && rec);
    scs->static_config.encoder_bit_depth = 8; scs->subsampling_x = 1; scs->subsampling_y = 1;
    scs->max_input_pad_right = PW - VW; scs->max_input_pad_bottom = PH - VH;
    for (int i = 0; i < 511; i++) SQT[i] = (int64_t)vin64();
    mk_desc(in); mk_desc(rec);
    pcs->parent_pcs_ptr = ppcs; ppcs->enhanced_unscaled_picture_ptr = in;
    int is_ref = ISREF, tf = TF;      /* concrete per query: with symbolic selectors every sample read is a two-way choice feeding a 64-bit multiplier */
    ppcs->is_used_as_reference_flag = (EbBool)is_ref; ppcs->reference_picture_wrapper_ptr = rw; rw->object_ptr = ro;
    if (is_ref) { ro->reference_picture = rec; pcs->recon_picture_ptr = NULL; } else { ro->reference_picture = NULL; pcs->recon_picture_ptr = rec; }
    ppcs->temporal_filtering_on = (EbBool)tf;
    /* the saved original source has the geometry of the input picture (temporal filtering copies whole planes) */
    EbPictureBufferDesc saved = *in; uint32_t rows = PH + 2 * in->origin_y;
    saved.buffer_y = plane(in->stride_y, rows); saved.buffer_cb = plane(in->stride_cb, rows / 2); saved.buffer_cr = plane(in->stride_cr, rows / 2);
    ppcs->save_enhanced_picture_ptr[0] = saved.buffer_y; ppcs->save_enhanced_picture_ptr[1] = saved.buffer_cb; ppcs->save_enhanced_picture_ptr[2] = saved.buffer_cr;
    const EbPictureBufferDesc *src = tf ? &saved : in;
    /* specification */
    /* accumulated in 64 bits and truncated to 32 at the end, like the statistic is defined ("as 32-bit values") */
    uint64_t want[3] = {0, 0, 0};
    for (int y = 0; y < VH; y++) for (int x = 0; x < VW; x++) {
        int a = src->buffer_y[(in->origin_y + y) * in->stride_y + in->origin_x + x], b = rec->buffer_y[(rec->origin_y + y) * rec->stride_y + rec->origin_x + x];
        want[0] += (uint64_t)sq_model((int64_t)a - b); }
    for (int y = 0; y < VH / 2; y++) for (int x = 0; x < VW / 2; x++) {
        int a = src->buffer_cb[(in->origin_y / 2 + y) * in->stride_cb + in->origin_x / 2 + x], b = rec->buffer_cb[(rec->origin_y / 2 + y) * rec->stride_cb + rec->origin_x / 2 + x];
        want[1] += (uint64_t)sq_model((int64_t)a - b);
        a = src->buffer_cr[(in->origin_y / 2 + y) * in->stride_cr + in->origin_x / 2 + x]; b = rec->buffer_cr[(rec->origin_y / 2 + y) * rec->stride_cr + rec->origin_x / 2 + x];
        want[2] += (uint64_t)sq_model((int64_t)a - b); }
    psnr_calculations(pcs, scs, EB_FALSE);
    V_ASSERT(ppcs->luma_sse == (uint32_t)want[0], "luma SSE equals the sum of squared differences over the visible luma samples");
    V_ASSERT(ppcs->cb_sse == (uint32_t)want[1], "Cb SSE equals the sum of squared differences over the visible Cb samples");
    V_ASSERT(ppcs->cr_sse == (uint32_t)want[2], "Cr SSE equals the sum of squared differences over the visible Cr samples");
    V_END();
}
#ifdef CHECK_SQR_MACRO
void sqr_macro(void) { int64_t d = (int64_t)vin_range(-255, 255); V_ASSERT(SQR(d) == d * d, "SQR(x) is x*x"); V_END(); }
#endif
#ifndef VERIF_CBMC
int main(void) { V_ENTRY(); puts("REPLAY-OK"); return 0; }
#endif
