/* C27 (recycled output headers): the header-initialisation statements of packetization_kernel (sliced verbatim,
 * from the fetch of the output header to the rate-control hand-off) run on two output headers with ARBITRARY
 * and DIFFERENT previous contents (which header a picture gets depends on how the application paced
 * get_packet/release_out_buffer) and the same picture: every application-visible field must come out identical. */
#include "verif.h"
#include "EbDefinitions.h"
#include "EbSequenceControlSet.h"
#include "EbPictureControlSet.h"
#include "EbEncodeContext.h"
#include "c27_fill.inc"
static void stale(EbBufferHeaderType *o) {
    o->flags = vin32(); o->n_filled_len = vin32(); o->pts = (int64_t)vin64(); o->dts = (int64_t)vin64(); o->pic_type = vin32(); o->qp = vin32();
    o->p_app_private = (void *)(uintptr_t)vin64(); o->luma_sse = vin32(); o->cb_sse = vin32(); o->cr_sse = vin32();
    o->luma_ssim = 0; o->cb_ssim = 0; o->cr_ssim = 0; o->p_buffer = NULL; o->wrapper_ptr = NULL; o->n_alloc_len = 0; o->size = sizeof(EbBufferHeaderType); o->metadata = NULL;
}
void harness(void) {
    SequenceControlSet *scs = (SequenceControlSet *)malloc(sizeof *scs); PictureControlSet *pcs = (PictureControlSet *)malloc(sizeof *pcs);
    PictureParentControlSet *ppcs = (PictureParentControlSet *)malloc(sizeof *ppcs); EncodeContext *ctx = (EncodeContext *)malloc(sizeof *ctx);
    EbBufferHeaderType *in = (EbBufferHeaderType *)malloc(sizeof *in);
    EbBufferHeaderType *o1 = (EbBufferHeaderType *)malloc(sizeof *o1), *o2 = (EbBufferHeaderType *)malloc(sizeof *o2);
    V_ASSUME(scs && pcs && ppcs && ctx && in && o1 && o2);
    pcs->parent_pcs_ptr = ppcs; ppcs->input_ptr = in; scs->encode_context_ptr = ctx;
    scs->static_config.stat_report = (uint32_t)vinbool();
    ctx->terminating_sequence_flag_received = (EbBool)vinbool(); ctx->terminating_picture_number = vin64();
    ppcs->decode_order = vin64(); in->pts = (int64_t)vin64(); in->p_app_private = (void *)(uintptr_t)vin64();
    ppcs->is_used_as_reference_flag = (EbBool)vinbool(); ppcs->idr_flag = (EbBool)vinbool(); pcs->slice_type = (EB_SLICE)vin_range(0, 2);
    ppcs->picture_qp = vin8();
    ppcs->luma_sse = vin32(); ppcs->cb_sse = vin32(); ppcs->cr_sse = vin32(); ppcs->luma_ssim = 0; ppcs->cb_ssim = 0; ppcs->cr_ssim = 0;
    stale(o1); stale(o2);
    fill_header(scs, ctx, pcs, o1);
    fill_header(scs, ctx, pcs, o2);
    V_ASSERT(o1->flags == o2->flags, "packet flags do not depend on what the recycled header carried before");
    V_ASSERT((o1->flags & ~(uint32_t)EB_BUFFERFLAG_EOS) == 0, "only the EOS flag can be set at this point");
    V_ASSERT(o1->n_filled_len == 0 && o2->n_filled_len == 0, "fill length restarts at 0");
    V_ASSERT(o1->pts == o2->pts && o1->dts == o2->dts && o1->pts == in->pts, "pts/dts come from the picture");
    V_ASSERT(o1->pic_type == o2->pic_type && o1->qp == o2->qp && o1->p_app_private == o2->p_app_private, "pic_type, qp, private pointer come from the picture");
    V_ASSERT(o1->luma_sse == o2->luma_sse && o1->cb_sse == o2->cb_sse && o1->cr_sse == o2->cr_sse, "statistics do not depend on the recycled header");
    V_END();
}
#ifndef VERIF_CBMC
int main(void) { harness(); puts("REPLAY-OK"); return 0; }
#endif
