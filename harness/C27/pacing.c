/* C27 (pacing histories): the real EbSystemResourceManager.c output pool, the real svt_av1_enc_get_packet and
 * svt_av1_enc_release_out_buffer (sliced by name from EbEncHandle.c), real header creator; the encoder side is
 * the packetization protocol on that pool (get empty header, attach payload, post).  The solver chooses a
 * history of K atomic steps {post, poll, release any held packet}, then the harness drains. */
#include "verif.h"
#ifndef NOBJ
#define NOBJ 2
#endif
#ifndef K
#define K 6
#endif
#define V_SYNC_POOL 10
static int v_blocked;
#define V_SEM_BLOCKED(s) do { v_blocked = 1; V_ASSUME(0); } while (0)   /* a sequential history cannot continue through a wait that nobody can satisfy; the harness checks beforehand that it only asks when satisfiable */
#include "common/threads_model.h"
#include "EbObject.h"
#include "EbSvtAv1Enc.h"
#include "EbEncHandle.h"
#include "common/dctor_dispatch_srm.h"
#include "Source/Lib/Common/Codec/EbSystemResourceManager.c"
void svt_print_alloc_fail(const char *f, int l) { (void)f; (void)l; }
#include "c27_api.inc"      /* svt_av1_enc_get_packet, svt_av1_enc_release_out_buffer */
#include "c27_creator.inc"  /* svt_output_buffer_header_creator */
static EbSystemResource *R; static EbEncHandle *E; static EbComponentType *C; static EbFifo *PF;
static unsigned sem_count(EbHandle h) { return v_obj(h)->count; }
static int posted, got, queued;                 /* packets posted, received; currently queued = posted - got */
static EbBufferHeaderType *held[NOBJ]; static int nheld;
static uint32_t exp_flags[K + 1]; static uint8_t *exp_payload[K + 1];
static void step_post(void) {
    if (sem_count(PF->counting_semaphore) == 0 && svt_circular_buffer_empty_check(R->empty_queue->object_queue)) {
        /* producer would block: legitimate only as back-pressure */
        V_ASSERT(queued + nheld == NOBJ, "the encoder finds no free output header only when every header is queued for or held by the application");
        return;
    }
    EbObjectWrapper *w = NULL;
    svt_get_empty_object(PF, &w);
    V_ASSERT(w != NULL, "free header obtained");  V_ASSUME(w != NULL);
    EbBufferHeaderType *h = (EbBufferHeaderType *)w->object_ptr;
    V_ASSERT(h->p_buffer == NULL, "a recycled header owns no payload (packetization overwrites p_buffer without freeing)");
    h->flags = vin32() & 0xF; h->n_filled_len = 1; h->p_buffer = (uint8_t *)malloc(1); V_ASSUME(h->p_buffer != NULL); h->p_buffer[0] = (uint8_t)posted;
    exp_flags[posted] = h->flags; exp_payload[posted] = h->p_buffer;
    svt_post_full_object(w);
    posted++; queued++;
}
static void check_packet(EbBufferHeaderType *p) {
    V_ASSERT(p->wrapper_ptr != NULL && ((EbObjectWrapper *)p->wrapper_ptr)->object_ptr == (EbPtr)p, "packet remembers its wrapper");
    V_ASSERT(p->p_buffer == exp_payload[got] && p->p_buffer[0] == (uint8_t)got && p->flags == exp_flags[got], "packets arrive once, in posting order, with the payload and flags they were posted with");
    for (int i = 0; i < NOBJ; i++) if (i < nheld) V_ASSERT(held[i] != p, "a packet held by the application is not delivered again");
}
static void step_poll(int blocking) {
    EbBufferHeaderType *p = NULL;
    if (blocking) V_ASSUME(queued > 0);       /* blocking get is only used in the drain, where the encoder side is idle */
    EbErrorType e = svt_av1_enc_get_packet(C, &p, (unsigned char)blocking);
    if (queued == 0) { V_ASSERT(e == EB_NoErrorEmptyQueue && p == NULL, "a poll reports 'empty' when nothing is queued"); return; }
    V_ASSERT(e == EB_ErrorNone && p != NULL, "a poll returns the oldest queued packet whenever one is queued");
    V_ASSUME(p != NULL);
    check_packet(p);
    held[nheld++] = p; got++; queued--;
}
static void step_release(void) {
    if (nheld == 0) return;
    int i = (int)vin_range(0, NOBJ - 1); V_ASSUME(i < nheld);
    EbBufferHeaderType *p = held[i];
    svt_av1_enc_release_out_buffer(&p);
    V_ASSERT(held[i]->p_buffer == NULL, "payload released with the packet");
    held[i] = held[nheld - 1]; nheld--;
}
void harness(void) {
    R = (EbSystemResource *)calloc(1, sizeof(*R)); E = (EbEncHandle *)malloc(sizeof(*E)); C = (EbComponentType *)malloc(sizeof(*C)); V_ASSUME(R && E && C);
    EbErrorType e = svt_system_resource_ctor(R, NOBJ, 1, 1, svt_output_buffer_header_creator, NULL, NULL); V_ASSUME(e == EB_ErrorNone);
    C->p_component_private = E; E->output_stream_buffer_consumer_fifo_ptr = svt_system_resource_get_consumer_fifo(R, 0);
    PF = svt_system_resource_get_producer_fifo(R, 0);
    for (int s = 0; s < K; s++) {
        int t = (int)vin_range(0, 2);
        if (t == 0) step_post(); else if (t == 1) step_poll(0); else step_release();
        V_ASSERT(!v_blocked, "no step of the history waits on something nobody can provide");
    }
    /* drain after end of stream: blocking gets for what is queued, releasing as we go */
    for (int s = 0; s < NOBJ; s++) { while (0) {} if (nheld) { step_release(); } }
    for (int s = 0; s < NOBJ; s++) if (queued > 0) { step_poll(1); step_release(); }
    for (int s = 0; s < NOBJ; s++) if (nheld) step_release();
    V_ASSERT(queued == 0 && nheld == 0 && got == posted, "everything posted was delivered exactly once");
    { EbBufferHeaderType *p = NULL; EbErrorType e2 = svt_av1_enc_get_packet(C, &p, 0); V_ASSERT(e2 == EB_NoErrorEmptyQueue && p == NULL, "nothing more after the drain"); }
    /* the pool is whole again: NOBJ posts succeed without any release */
    int before = posted; for (int s = 0; s < NOBJ; s++) step_post();
    V_ASSERT(posted == before + NOBJ, "after the drain every output header is back in the pool");
    V_END();
}
#ifndef VERIF_CBMC
int main(void) { harness(); puts("REPLAY-OK"); return 0; }
#endif
