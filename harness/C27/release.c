/* C27 (release ordering): real svt_av1_enc_release_out_buffer (sliced by name from EbEncHandle.c).
 * svt_release_object is the point where the header becomes visible to the encoder again (the packetization
 * thread may take it at once): at that moment the application-side call must have finished with the header,
 * i.e. the payload is already freed and p_buffer already NULL.  The stub of svt_release_object is that monitor. */
#include "verif.h"
#include "EbDefinitions.h"
#include "EbSvtAv1Enc.h"
#include "EbSystemResourceManager.h"
#include "EbMalloc.h"
static int released, payload_freed_before_release; static EbBufferHeaderType *H; static EbObjectWrapper *WR;
EbErrorType svt_release_object(EbObjectWrapper *w) {
    V_ASSERT(w == WR, "the packet's own wrapper is released");
    V_ASSERT(H->p_buffer == NULL, "payload pointer cleared before the header is handed back to the encoder's pool");
    released++;
    return EB_ErrorNone;
}
void svt_print_alloc_fail(const char *f, int l) { (void)f; (void)l; }
#include "c27_release.inc"
void harness(void) {
    H = (EbBufferHeaderType *)malloc(sizeof *H); WR = (EbObjectWrapper *)malloc(sizeof *WR);
    V_ASSUME(H && WR);
    int has_payload = vinbool(), has_wrapper = vinbool();
    H->p_buffer = has_payload ? (uint8_t *)malloc(4) : NULL; if (has_payload) V_ASSUME(H->p_buffer != NULL);
    H->wrapper_ptr = has_wrapper ? WR : NULL; WR->object_ptr = H;
    EbBufferHeaderType *p = vinbool() ? H : NULL; EbBufferHeaderType **pp = vinbool() ? &p : NULL;
    svt_av1_enc_release_out_buffer(pp);
    if (pp && p && has_wrapper) { V_ASSERT(released == 1, "wrapper returned to the pool exactly once"); V_ASSERT(H->p_buffer == NULL, "payload released with the packet"); }
    else V_ASSERT(released == 0, "nothing released for a NULL / foreign buffer");
    V_END();
}
#ifndef VERIF_CBMC
int main(void) { harness(); puts("REPLAY-OK"); return 0; }
#endif
