/* C bodies for x86 SIMD builtins that CBMC has no model for.  Each body is the lane-wise definition from
 * the Intel SDM / intrinsics guide; the gcc replay build uses the real instructions instead (the bodies are
 * compiled only under VERIF_CBMC), so a model error shows up as a counterexample that does not replay. */
#ifndef IA32_MODELS_H
#define IA32_MODELS_H
#ifdef VERIF_CBMC
#include <immintrin.h>
static inline uint8_t v_sat_u8(int16_t x) { return x < 0 ? 0 : x > 255 ? 255 : (uint8_t)x; }
static inline int8_t v_sat_s8(int16_t x) { return x < -128 ? -128 : x > 127 ? 127 : (int8_t)x; }
static inline int16_t v_sat_s16(int32_t x) { return x < -32768 ? -32768 : x > 32767 ? 32767 : (int16_t)x; }
static inline uint16_t v_sat_u16(int32_t x) { return x < 0 ? 0 : x > 65535 ? 65535 : (uint16_t)x; }

/* Optional abstraction of squaring (V_ABSTRACT_SQUARE): d*d for |d| <= 255 is read from an arbitrary table
 * V_SQT[|d|] with arbitrary 16-bit entries (a superset of the real squares 0..65025; structurally narrow so that the accumulators keep constant-zero high bits), shared by the SIMD models and the C reference (SQR macro).  Equivalence
 * under an arbitrary such table implies equivalence for the real squares; a counterexample is replayed on the
 * real code, so a spurious one (kernel relying on algebra of squares) comes back "not reproduced". */
#ifdef V_ABSTRACT_SQUARE
static uint16_t V_SQT[256];
static inline void v_sqt_init(void) { for (int i = 0; i < 256; i++) { V_SQT[i] = vin16(); } }
static inline int64_t v_sq(int64_t d) { int64_t m = d < 0 ? -d : d; V_ASSERT(m <= 255, "squaring abstraction used only for 8-bit sample differences"); return (int64_t)V_SQT[m & 255]; }
static inline int v_mul16(int x, int y) { return (x == y && x >= -255 && x <= 255) ? (int)V_SQT[(x < 0 ? -x : x) & 255] : x * y; }
#else
static inline void v_sqt_init(void) {}
static inline int v_mul16(int x, int y) { return x * y; }
#endif

__v32qi __builtin_ia32_packuswb256(__v16hi a, __v16hi b) {
    __v32qi r;
    for (int l = 0; l < 2; l++)
        for (int i = 0; i < 8; i++) {
            r[l * 16 + i]     = (char)v_sat_u8(a[l * 8 + i]);
            r[l * 16 + 8 + i] = (char)v_sat_u8(b[l * 8 + i]);
        }
    return r;
}
__v16qi __builtin_ia32_packuswb128(__v8hi a, __v8hi b) {
    __v16qi r;
    for (int i = 0; i < 8; i++) { r[i] = (char)v_sat_u8(a[i]); r[8 + i] = (char)v_sat_u8(b[i]); }
    return r;
}
__v4di __builtin_ia32_permdi256(__v4di a, int imm) {
    __v4di r;
    for (int i = 0; i < 4; i++) r[i] = a[(imm >> (2 * i)) & 3];
    return r;
}

__v32qi __builtin_ia32_punpcklbw256(__v32qi a, __v32qi b) {
    __v32qi r;
    for (int l = 0; l < 2; l++) for (int i = 0; i < 8; i++) { r[l * 16 + 2 * i] = a[l * 16 + i]; r[l * 16 + 2 * i + 1] = b[l * 16 + i]; }
    return r;
}
__v32qi __builtin_ia32_punpckhbw256(__v32qi a, __v32qi b) {
    __v32qi r;
    for (int l = 0; l < 2; l++) for (int i = 0; i < 8; i++) { r[l * 16 + 2 * i] = a[l * 16 + 8 + i]; r[l * 16 + 2 * i + 1] = b[l * 16 + 8 + i]; }
    return r;
}
__v8si __builtin_ia32_pmaddwd256(__v16hi a, __v16hi b) {
    __v8si r;
    for (int i = 0; i < 8; i++) r[i] = (int)((unsigned)(v_mul16(a[2 * i], b[2 * i])) + (unsigned)(v_mul16(a[2 * i + 1], b[2 * i + 1])));
    return r;
}
__v4si __builtin_ia32_pmaddwd128(__v8hi a, __v8hi b) {
    __v4si r;
    for (int i = 0; i < 4; i++) r[i] = (int)((unsigned)(v_mul16(a[2 * i], b[2 * i])) + (unsigned)(v_mul16(a[2 * i + 1], b[2 * i + 1])));
    return r;
}
__v16hi __builtin_ia32_pmaddubsw256(__v32qi a, __v32qi b) {
    __v16hi r;
    for (int i = 0; i < 16; i++) r[i] = v_sat_s16((int)(uint8_t)a[2 * i] * (int)(int8_t)b[2 * i] + (int)(uint8_t)a[2 * i + 1] * (int)(int8_t)b[2 * i + 1]);
    return r;
}
__v32qi __builtin_ia32_pmaxub256(__v32qi a, __v32qi b) {
    __v32qi r;
    for (int i = 0; i < 32; i++) r[i] = (uint8_t)a[i] > (uint8_t)b[i] ? a[i] : b[i];
    return r;
}
__v32qi __builtin_ia32_pminub256(__v32qi a, __v32qi b) {
    __v32qi r;
    for (int i = 0; i < 32; i++) r[i] = (uint8_t)a[i] < (uint8_t)b[i] ? a[i] : b[i];
    return r;
}
__v16hi __builtin_ia32_pmovzxbw256(__v16qi a) {
    __v16hi r;
    for (int i = 0; i < 16; i++) r[i] = (short)(uint8_t)a[i];
    return r;
}
__v2di __builtin_ia32_extract128i256(__v4di a, int imm) {
    __v2di r; r[0] = a[(imm & 1) * 2]; r[1] = a[(imm & 1) * 2 + 1];
    return r;
}
__v4si __builtin_ia32_vextractf128_si256(__v8si a, int imm) { __v4si r; for (int i = 0; i < 4; i++) r[i] = a[(imm & 1) * 4 + i]; return r; }
__v4di __builtin_ia32_insert128i256(__v4di a, __v2di b, int imm) {
    __v4di r = a; r[(imm & 1) * 2] = b[0]; r[(imm & 1) * 2 + 1] = b[1];
    return r;
}
__v8si __builtin_ia32_vinsertf128_si256(__v8si a, __v4si b, int imm) {
    __v8si r = a;
    for (int i = 0; i < 4; i++) r[(imm & 1) * 4 + i] = b[i];
    return r;
}
/* cast 128->256: upper half undefined by the ISA; modelled as nondeterministic */
long long nondet_v_ll(void);
__v8si __builtin_ia32_si256_si(__v4si a) {
    __v8si r;
    for (int i = 0; i < 4; i++) r[i] = a[i];
    for (int i = 4; i < 8; i++) r[i] = (int)nondet_v_ll();
    return r;
}
__v4si __builtin_ia32_si_si256(__v8si a) {
    __v4si r;
    for (int i = 0; i < 4; i++) r[i] = a[i];
    return r;
}
/* psrldq/pslldq: gcc passes the shift in BITS */
__v2di __builtin_ia32_psrldqi128(__v2di a, int bits) {
    __v16qi x = (__v16qi)a, r; int n = bits / 8;
    for (int i = 0; i < 16; i++) r[i] = (i + n < 16) ? x[i + n] : 0;
    return (__v2di)r;
}
__v2di __builtin_ia32_pslldqi128(__v2di a, int bits) {
    __v16qi x = (__v16qi)a, r; int n = bits / 8;
    for (int i = 0; i < 16; i++) r[i] = (i - n >= 0) ? x[i - n] : 0;
    return (__v2di)r;
}

__v8hi __builtin_ia32_pmovzxbw128(__v16qi a) {
    __v8hi r;
    for (int i = 0; i < 8; i++) r[i] = (short)(uint8_t)a[i];
    return r;
}
__v16qi __builtin_ia32_pavgb128(__v16qi a, __v16qi b) {
    __v16qi r;
    for (int i = 0; i < 16; i++) r[i] = (char)(((unsigned)(uint8_t)a[i] + (unsigned)(uint8_t)b[i] + 1u) >> 1);
    return r;
}
__v32qi __builtin_ia32_pavgb256(__v32qi a, __v32qi b) {
    __v32qi r;
    for (int i = 0; i < 32; i++) r[i] = (char)(((unsigned)(uint8_t)a[i] + (unsigned)(uint8_t)b[i] + 1u) >> 1);
    return r;
}
/* immediate shifts (count >= lane width gives 0, arithmetic shift saturates the count) */
__v8hi __builtin_ia32_psllwi128(__v8hi a, int n) { __v8hi r; for (int i = 0; i < 8; i++) r[i] = (n < 0 || n > 15) ? 0 : (short)((uint16_t)a[i] << n); return r; }
__v8hi __builtin_ia32_psrlwi128(__v8hi a, int n) { __v8hi r; for (int i = 0; i < 8; i++) r[i] = (n < 0 || n > 15) ? 0 : (short)((uint16_t)a[i] >> n); return r; }
__v8hi __builtin_ia32_psrawi128(__v8hi a, int n) { __v8hi r; int m = (n < 0 || n > 15) ? 15 : n; for (int i = 0; i < 8; i++) r[i] = (short)(a[i] >> m); return r; }
__v4si __builtin_ia32_pslldi128(__v4si a, int n) { __v4si r; for (int i = 0; i < 4; i++) r[i] = (n < 0 || n > 31) ? 0 : (int)((uint32_t)a[i] << n); return r; }
__v4si __builtin_ia32_psrldi128(__v4si a, int n) { __v4si r; for (int i = 0; i < 4; i++) r[i] = (n < 0 || n > 31) ? 0 : (int)((uint32_t)a[i] >> n); return r; }
__v4si __builtin_ia32_psradi128(__v4si a, int n) { __v4si r; int m = (n < 0 || n > 31) ? 31 : n; for (int i = 0; i < 4; i++) r[i] = a[i] >> m; return r; }
__v16hi __builtin_ia32_psllwi256(__v16hi a, int n) { __v16hi r; for (int i = 0; i < 16; i++) r[i] = (n < 0 || n > 15) ? 0 : (short)((uint16_t)a[i] << n); return r; }
__v16hi __builtin_ia32_psrlwi256(__v16hi a, int n) { __v16hi r; for (int i = 0; i < 16; i++) r[i] = (n < 0 || n > 15) ? 0 : (short)((uint16_t)a[i] >> n); return r; }
__v16hi __builtin_ia32_psrawi256(__v16hi a, int n) { __v16hi r; int m = (n < 0 || n > 15) ? 15 : n; for (int i = 0; i < 16; i++) r[i] = (short)(a[i] >> m); return r; }
__v8si __builtin_ia32_pslldi256(__v8si a, int n) { __v8si r; for (int i = 0; i < 8; i++) r[i] = (n < 0 || n > 31) ? 0 : (int)((uint32_t)a[i] << n); return r; }
__v8si __builtin_ia32_psrldi256(__v8si a, int n) { __v8si r; for (int i = 0; i < 8; i++) r[i] = (n < 0 || n > 31) ? 0 : (int)((uint32_t)a[i] >> n); return r; }
__v8si __builtin_ia32_psradi256(__v8si a, int n) { __v8si r; int m = (n < 0 || n > 31) ? 31 : n; for (int i = 0; i < 8; i++) r[i] = a[i] >> m; return r; }
/* 128-bit interleaves and packs */
__v16qi __builtin_ia32_punpcklbw128(__v16qi a, __v16qi b) { __v16qi r; for (int i = 0; i < 8; i++) { r[2 * i] = a[i]; r[2 * i + 1] = b[i]; } return r; }
__v16qi __builtin_ia32_punpckhbw128(__v16qi a, __v16qi b) { __v16qi r; for (int i = 0; i < 8; i++) { r[2 * i] = a[8 + i]; r[2 * i + 1] = b[8 + i]; } return r; }
__v8hi __builtin_ia32_punpcklwd128(__v8hi a, __v8hi b) { __v8hi r; for (int i = 0; i < 4; i++) { r[2 * i] = a[i]; r[2 * i + 1] = b[i]; } return r; }
__v8hi __builtin_ia32_punpckhwd128(__v8hi a, __v8hi b) { __v8hi r; for (int i = 0; i < 4; i++) { r[2 * i] = a[4 + i]; r[2 * i + 1] = b[4 + i]; } return r; }
__v4si __builtin_ia32_punpckldq128(__v4si a, __v4si b) { __v4si r; r[0] = a[0]; r[1] = b[0]; r[2] = a[1]; r[3] = b[1]; return r; }
__v4si __builtin_ia32_punpckhdq128(__v4si a, __v4si b) { __v4si r; r[0] = a[2]; r[1] = b[2]; r[2] = a[3]; r[3] = b[3]; return r; }
__v2di __builtin_ia32_punpcklqdq128(__v2di a, __v2di b) { __v2di r; r[0] = a[0]; r[1] = b[0]; return r; }
__v2di __builtin_ia32_punpckhqdq128(__v2di a, __v2di b) { __v2di r; r[0] = a[1]; r[1] = b[1]; return r; }
__v16hi __builtin_ia32_punpcklwd256(__v16hi a, __v16hi b) { __v16hi r; for (int l = 0; l < 2; l++) for (int i = 0; i < 4; i++) { r[l * 8 + 2 * i] = a[l * 8 + i]; r[l * 8 + 2 * i + 1] = b[l * 8 + i]; } return r; }
__v16hi __builtin_ia32_punpckhwd256(__v16hi a, __v16hi b) { __v16hi r; for (int l = 0; l < 2; l++) for (int i = 0; i < 4; i++) { r[l * 8 + 2 * i] = a[l * 8 + 4 + i]; r[l * 8 + 2 * i + 1] = b[l * 8 + 4 + i]; } return r; }
__v16qi __builtin_ia32_packsswb128(__v8hi a, __v8hi b) { __v16qi r; for (int i = 0; i < 8; i++) { r[i] = (char)v_sat_s8(a[i]); r[8 + i] = (char)v_sat_s8(b[i]); } return r; }
__v8hi __builtin_ia32_packssdw128(__v4si a, __v4si b) { __v8hi r; for (int i = 0; i < 4; i++) { r[i] = v_sat_s16(a[i]); r[4 + i] = v_sat_s16(b[i]); } return r; }
__v8hi __builtin_ia32_packusdw128(__v4si a, __v4si b) { __v8hi r; for (int i = 0; i < 4; i++) { r[i] = (short)v_sat_u16(a[i]); r[4 + i] = (short)v_sat_u16(b[i]); } return r; }
__v16hi __builtin_ia32_packssdw256(__v8si a, __v8si b) { __v16hi r; for (int l = 0; l < 2; l++) for (int i = 0; i < 4; i++) { r[l * 8 + i] = v_sat_s16(a[l * 4 + i]); r[l * 8 + 4 + i] = v_sat_s16(b[l * 4 + i]); } return r; }
__v16hi __builtin_ia32_packusdw256(__v8si a, __v8si b) { __v16hi r; for (int l = 0; l < 2; l++) for (int i = 0; i < 4; i++) { r[l * 8 + i] = (short)v_sat_u16(a[l * 4 + i]); r[l * 8 + 4 + i] = (short)v_sat_u16(b[l * 4 + i]); } return r; }
/* saturating adds/subs */
__v16hi __builtin_ia32_paddsw256(__v16hi a, __v16hi b) { __v16hi r; for (int i = 0; i < 16; i++) r[i] = v_sat_s16((int)a[i] + (int)b[i]); return r; }
__v16hi __builtin_ia32_psubsw256(__v16hi a, __v16hi b) { __v16hi r; for (int i = 0; i < 16; i++) r[i] = v_sat_s16((int)a[i] - (int)b[i]); return r; }
__v8hi __builtin_ia32_paddsw128(__v8hi a, __v8hi b) { __v8hi r; for (int i = 0; i < 8; i++) r[i] = v_sat_s16((int)a[i] + (int)b[i]); return r; }
__v8hi __builtin_ia32_psubsw128(__v8hi a, __v8hi b) { __v8hi r; for (int i = 0; i < 8; i++) r[i] = v_sat_s16((int)a[i] - (int)b[i]); return r; }
__v16qi __builtin_ia32_psubusb128(__v16qi a, __v16qi b) { __v16qi r; for (int i = 0; i < 16; i++) { int d = (int)(uint8_t)a[i] - (int)(uint8_t)b[i]; r[i] = (char)(d < 0 ? 0 : d); } return r; }
__v16qi __builtin_ia32_paddusb128(__v16qi a, __v16qi b) { __v16qi r; for (int i = 0; i < 16; i++) { int d = (int)(uint8_t)a[i] + (int)(uint8_t)b[i]; r[i] = (char)(d > 255 ? 255 : d); } return r; }

/* byte/word shuffles, abs, andn, broadcast */
__v16qi __builtin_ia32_pshufb128(__v16qi a, __v16qi m) { __v16qi r; for (int i = 0; i < 16; i++) r[i] = (m[i] & 0x80) ? 0 : a[m[i] & 15]; return r; }
__v32qi __builtin_ia32_pshufb256(__v32qi a, __v32qi m) { __v32qi r; for (int l = 0; l < 2; l++) for (int i = 0; i < 16; i++) r[l * 16 + i] = (m[l * 16 + i] & 0x80) ? 0 : a[l * 16 + (m[l * 16 + i] & 15)]; return r; }
__v4si __builtin_ia32_pshufd(__v4si a, int imm) { __v4si r; for (int i = 0; i < 4; i++) r[i] = a[(imm >> (2 * i)) & 3]; return r; }
__v8hi __builtin_ia32_pshuflw(__v8hi a, int imm) { __v8hi r = a; for (int i = 0; i < 4; i++) r[i] = a[(imm >> (2 * i)) & 3]; return r; }
__v8hi __builtin_ia32_pshufhw(__v8hi a, int imm) { __v8hi r = a; for (int i = 0; i < 4; i++) r[4 + i] = a[4 + ((imm >> (2 * i)) & 3)]; return r; }
__v8si __builtin_ia32_pshufd256(__v8si a, int imm) { __v8si r; for (int l = 0; l < 2; l++) for (int i = 0; i < 4; i++) r[l * 4 + i] = a[l * 4 + ((imm >> (2 * i)) & 3)]; return r; }
__v16hi __builtin_ia32_pshuflw256(__v16hi a, int imm) { __v16hi r = a; for (int l = 0; l < 2; l++) for (int i = 0; i < 4; i++) r[l * 8 + i] = a[l * 8 + ((imm >> (2 * i)) & 3)]; return r; }
__v16hi __builtin_ia32_pshufhw256(__v16hi a, int imm) { __v16hi r = a; for (int l = 0; l < 2; l++) for (int i = 0; i < 4; i++) r[l * 8 + 4 + i] = a[l * 8 + 4 + ((imm >> (2 * i)) & 3)]; return r; }
__v8hi __builtin_ia32_pabsw128(__v8hi a) { __v8hi r; for (int i = 0; i < 8; i++) r[i] = (short)(a[i] < 0 ? (uint16_t)(-(int)a[i]) : (uint16_t)a[i]); return r; }
__v16hi __builtin_ia32_pabsw256(__v16hi a) { __v16hi r; for (int i = 0; i < 16; i++) r[i] = (short)(a[i] < 0 ? (uint16_t)(-(int)a[i]) : (uint16_t)a[i]); return r; }
__v16qi __builtin_ia32_pabsb128(__v16qi a) { __v16qi r; for (int i = 0; i < 16; i++) r[i] = (char)(a[i] < 0 ? (uint8_t)(-(int)a[i]) : (uint8_t)a[i]); return r; }
__v4si __builtin_ia32_pabsd128(__v4si a) { __v4si r; for (int i = 0; i < 4; i++) r[i] = (int)(a[i] < 0 ? 0u - (unsigned)a[i] : (unsigned)a[i]); return r; }
__v8si __builtin_ia32_pabsd256(__v8si a) { __v8si r; for (int i = 0; i < 8; i++) r[i] = (int)(a[i] < 0 ? 0u - (unsigned)a[i] : (unsigned)a[i]); return r; }
__v2di __builtin_ia32_pandn128(__v2di a, __v2di b) { __v2di r; r[0] = ~a[0] & b[0]; r[1] = ~a[1] & b[1]; return r; }
__v4di __builtin_ia32_andnotsi256(__v4di a, __v4di b) { __v4di r; for (int i = 0; i < 4; i++) r[i] = ~a[i] & b[i]; return r; }
__v16hi __builtin_ia32_pbroadcastw256(__v8hi a) { __v16hi r; for (int i = 0; i < 16; i++) r[i] = a[0]; return r; }
__v32qi __builtin_ia32_pbroadcastb256(__v16qi a) { __v32qi r; for (int i = 0; i < 32; i++) r[i] = a[0]; return r; }
__v8si __builtin_ia32_pbroadcastd256(__v4si a) { __v8si r; for (int i = 0; i < 8; i++) r[i] = a[0]; return r; }
__v8hi __builtin_ia32_pbroadcastw128(__v8hi a) { __v8hi r; for (int i = 0; i < 8; i++) r[i] = a[0]; return r; }
__v16qi __builtin_ia32_pbroadcastb128(__v16qi a) { __v16qi r; for (int i = 0; i < 16; i++) r[i] = a[0]; return r; }
__v4di __builtin_ia32_psrldqi256(__v4di a, int bits) { __v32qi x = (__v32qi)a, r; int n = bits / 8; for (int l = 0; l < 2; l++) for (int i = 0; i < 16; i++) r[l * 16 + i] = (i + n < 16) ? x[l * 16 + i + n] : 0; return (__v4di)r; }
__v4di __builtin_ia32_pslldqi256(__v4di a, int bits) { __v32qi x = (__v32qi)a, r; int n = bits / 8; for (int l = 0; l < 2; l++) for (int i = 0; i < 16; i++) r[l * 16 + i] = (i - n >= 0) ? x[l * 16 + i - n] : 0; return (__v4di)r; }
__v2di __builtin_ia32_psadbw128(__v16qi a, __v16qi b) { __v2di r; for (int l = 0; l < 2; l++) { long long s = 0; for (int i = 0; i < 8; i++) { int d = (int)(uint8_t)a[l * 8 + i] - (int)(uint8_t)b[l * 8 + i]; s += d < 0 ? -d : d; } r[l] = s; } return r; }
__v16hi __builtin_ia32_psadbw256(__v32qi a, __v32qi b) { __v16hi r; for (int i = 0; i < 16; i++) r[i] = 0; for (int l = 0; l < 4; l++) { int s = 0; for (int i = 0; i < 8; i++) { int d = (int)(uint8_t)a[l * 8 + i] - (int)(uint8_t)b[l * 8 + i]; s += d < 0 ? -d : d; } r[l * 4] = (short)s; } return r; }
__v8hi __builtin_ia32_pmulhw128(__v8hi a, __v8hi b) { __v8hi r; for (int i = 0; i < 8; i++) r[i] = (short)(((int)a[i] * (int)b[i]) >> 16); return r; }
__v16hi __builtin_ia32_pmulhw256(__v16hi a, __v16hi b) { __v16hi r; for (int i = 0; i < 16; i++) r[i] = (short)(((int)a[i] * (int)b[i]) >> 16); return r; }
__v8hi __builtin_ia32_pmulhuw128(__v8hi a, __v8hi b) { __v8hi r; for (int i = 0; i < 8; i++) r[i] = (short)(((unsigned)(uint16_t)a[i] * (unsigned)(uint16_t)b[i]) >> 16); return r; }
__v16hi __builtin_ia32_pmulhuw256(__v16hi a, __v16hi b) { __v16hi r; for (int i = 0; i < 16; i++) r[i] = (short)(((unsigned)(uint16_t)a[i] * (unsigned)(uint16_t)b[i]) >> 16); return r; }
__v8hi __builtin_ia32_pmaddubsw128(__v16qi a, __v16qi b) { __v8hi r; for (int i = 0; i < 8; i++) r[i] = v_sat_s16((int)(uint8_t)a[2 * i] * (int)(int8_t)b[2 * i] + (int)(uint8_t)a[2 * i + 1] * (int)(int8_t)b[2 * i + 1]); return r; }
__v8hi __builtin_ia32_pavgw128(__v8hi a, __v8hi b) { __v8hi r; for (int i = 0; i < 8; i++) r[i] = (short)(((unsigned)(uint16_t)a[i] + (unsigned)(uint16_t)b[i] + 1u) >> 1); return r; }
__v16hi __builtin_ia32_pavgw256(__v16hi a, __v16hi b) { __v16hi r; for (int i = 0; i < 16; i++) r[i] = (short)(((unsigned)(uint16_t)a[i] + (unsigned)(uint16_t)b[i] + 1u) >> 1); return r; }

__v16qi __builtin_ia32_lddqu(const char *p) { __v16qi r; memcpy(&r, p, 16); return r; }
__v32qi __builtin_ia32_lddqu256(const char *p) { __v32qi r; memcpy(&r, p, 32); return r; }
__v4di __builtin_ia32_pmovsxwq256(__v8hi a) { __v4di r; for (int i = 0; i < 4; i++) r[i] = (long long)a[i]; return r; }
__v8si __builtin_ia32_pmovsxwd256(__v8hi a) { __v8si r; for (int i = 0; i < 8; i++) r[i] = (int)a[i]; return r; }
__v8si __builtin_ia32_pmovzxwd256(__v8hi a) { __v8si r; for (int i = 0; i < 8; i++) r[i] = (int)(uint16_t)a[i]; return r; }
__v4si __builtin_ia32_pmovzxwd128(__v8hi a) { __v4si r; for (int i = 0; i < 4; i++) r[i] = (int)(uint16_t)a[i]; return r; }
__v4di __builtin_ia32_psllqi256(__v4di a, int n) { __v4di r; for (int i = 0; i < 4; i++) r[i] = (n < 0 || n > 63) ? 0 : (long long)((unsigned long long)a[i] << n); return r; }
__v4di __builtin_ia32_psrlqi256(__v4di a, int n) { __v4di r; for (int i = 0; i < 4; i++) r[i] = (n < 0 || n > 63) ? 0 : (long long)((unsigned long long)a[i] >> n); return r; }
__v2di __builtin_ia32_psllqi128(__v2di a, int n) { __v2di r; for (int i = 0; i < 2; i++) r[i] = (n < 0 || n > 63) ? 0 : (long long)((unsigned long long)a[i] << n); return r; }
__v2di __builtin_ia32_psrlqi128(__v2di a, int n) { __v2di r; for (int i = 0; i < 2; i++) r[i] = (n < 0 || n > 63) ? 0 : (long long)((unsigned long long)a[i] >> n); return r; }

int __builtin_ia32_pmovmskb256(__v32qi a) { unsigned r = 0; for (int i = 0; i < 32; i++) r |= ((unsigned)((uint8_t)a[i] >> 7)) << i; return (int)r; }
int __builtin_ia32_pmovmskb128(__v16qi a) { unsigned r = 0; for (int i = 0; i < 16; i++) r |= ((unsigned)((uint8_t)a[i] >> 7)) << i; return (int)r; }
__v16hi __builtin_ia32_psignw256(__v16hi a, __v16hi b) { __v16hi r; for (int i = 0; i < 16; i++) r[i] = b[i] < 0 ? (short)(0 - (int)a[i]) : b[i] == 0 ? 0 : a[i]; return r; }
__v8hi __builtin_ia32_psignw128(__v8hi a, __v8hi b) { __v8hi r; for (int i = 0; i < 8; i++) r[i] = b[i] < 0 ? (short)(0 - (int)a[i]) : b[i] == 0 ? 0 : a[i]; return r; }
__v4di __builtin_ia32_permti256(__v4di a, __v4di b, int imm) {
    __v4di r;
    for (int h = 0; h < 2; h++) { int c = (imm >> (4 * h)) & 0xf; const __v4di *s = (c & 2) ? &b : &a; int o = (c & 1) * 2;
        r[2 * h] = (c & 8) ? 0 : (*s)[o]; r[2 * h + 1] = (c & 8) ? 0 : (*s)[o + 1]; }
    return r;
}
__v16hi __builtin_ia32_pmaxsw256(__v16hi a, __v16hi b) { __v16hi r; for (int i = 0; i < 16; i++) r[i] = a[i] > b[i] ? a[i] : b[i]; return r; }
__v8hi __builtin_ia32_pmaxsw128(__v8hi a, __v8hi b) { __v8hi r; for (int i = 0; i < 8; i++) r[i] = a[i] > b[i] ? a[i] : b[i]; return r; }
__v16hi __builtin_ia32_pminsw256(__v16hi a, __v16hi b) { __v16hi r; for (int i = 0; i < 16; i++) r[i] = a[i] < b[i] ? a[i] : b[i]; return r; }
__v8hi __builtin_ia32_pminsw128(__v8hi a, __v8hi b) { __v8hi r; for (int i = 0; i < 8; i++) r[i] = a[i] < b[i] ? a[i] : b[i]; return r; }
__v8hi __builtin_ia32_psubusw128(__v8hi a, __v8hi b) { __v8hi r; for (int i = 0; i < 8; i++) { int d = (int)(uint16_t)a[i] - (int)(uint16_t)b[i]; r[i] = (short)(d < 0 ? 0 : d); } return r; }
__v8hi __builtin_ia32_phminposuw128(__v8hi a) { __v8hi r; int bi = 0; for (int i = 1; i < 8; i++) if ((uint16_t)a[i] < (uint16_t)a[bi]) bi = i; for (int i = 0; i < 8; i++) r[i] = 0; r[0] = a[bi]; r[1] = (short)bi; return r; }
short __builtin_ia32_vec_ext_v8hi(__v8hi a, int n) { return a[n & 7]; }
int __builtin_ia32_vec_ext_v4si(__v4si a, int n) { return a[n & 3]; }

/* Integer<->double/float vector casts: gcc treats (__m128d)<__m128i> as a bit reinterpretation, CBMC 6.11
 * converts numerically (found by the self-test: loadh_pd).  All such casts and the 64-bit half moves that go
 * through double-typed builtins are replaced by explicit byte copies. */
static inline __m128d v_castsi128_pd(__m128i a) { __m128d r; memcpy(&r, &a, 16); return r; }
static inline __m128i v_castpd_si128(__m128d a) { __m128i r; memcpy(&r, &a, 16); return r; }
static inline __m128 v_castsi128_ps(__m128i a) { __m128 r; memcpy(&r, &a, 16); return r; }
static inline __m128i v_castps_si128(__m128 a) { __m128i r; memcpy(&r, &a, 16); return r; }
static inline __m128d v_loadh_pd(__m128d a, const void *p) { __m128d r = a; memcpy((char *)&r + 8, p, 8); return r; }
static inline __m128d v_loadl_pd(__m128d a, const void *p) { __m128d r = a; memcpy((char *)&r, p, 8); return r; }
static inline void v_storeh_pd(void *p, __m128d a) { memcpy(p, (char *)&a + 8, 8); }
static inline void v_storel_pd(void *p, __m128d a) { memcpy(p, (char *)&a, 8); }
#define _mm_castsi128_pd(a) v_castsi128_pd(a)
#define _mm_castpd_si128(a) v_castpd_si128(a)
#define _mm_castsi128_ps(a) v_castsi128_ps(a)
#define _mm_castps_si128(a) v_castps_si128(a)
#define _mm_loadh_pd(a, p) v_loadh_pd((a), (const void *)(p))
#define _mm_loadl_pd(a, p) v_loadl_pd((a), (const void *)(p))
#define _mm_storeh_pd(p, a) v_storeh_pd((void *)(p), (a))
#define _mm_storel_pd(p, a) v_storel_pd((void *)(p), (a))
__v4si __builtin_ia32_vec_set_v4si(__v4si a, int x, int n) { __v4si r = a; r[n & 3] = x; return r; }
__v8hi __builtin_ia32_vec_set_v8hi(__v8hi a, short x, int n) { __v8hi r = a; r[n & 7] = x; return r; }
__v16qi __builtin_ia32_vec_set_v16qi(__v16qi a, char x, int n) { __v16qi r = a; r[n & 15] = x; return r; }
__v2di __builtin_ia32_vec_set_v2di(__v2di a, long long x, int n) { __v2di r = a; r[n & 1] = x; return r; }

/* gcc's _mm_loadl_epi64/_mm_storel_epi64 go through a (long long)<__m64 vector> cast that CBMC 6.11 does not
 * evaluate as a bit reinterpretation (found by harness/C07/intrin_selftest.c); replaced by explicit 8-byte copies. */
static inline __m128i v_loadl_epi64(const void *p) { long long x; memcpy(&x, p, 8); __v2di r; r[0] = x; r[1] = 0; return (__m128i)r; }
static inline void v_storel_epi64(void *p, __m128i a) { long long x = ((__v2di)a)[0]; memcpy(p, &x, 8); }
#define _mm_loadl_epi64(p) v_loadl_epi64((const void *)(p))
#define _mm_storel_epi64(p, a) v_storel_epi64((void *)(p), (a))
#endif
#endif
