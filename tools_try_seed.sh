#!/bin/bash
# usage: tools_try_seed.sh <seed dir name under /verif/seeded> <property> [--only regex]
# applies the seeded change to /repo, runs the property's quick check, restores /repo. Prints the verdict.
S=$1; P=$2; shift 2
cd /repo || exit 9
git diff --quiet || { echo "REPO DIRTY: commit or stash first"; exit 9; }
PF=/verif/seeded/$S/patch.diff; [ -f /verif/seeded/$S/patch_on_fixed_tree.diff ] && PF=/verif/seeded/$S/patch_on_fixed_tree.diff; git apply $PF || { echo "PATCH DOES NOT APPLY"; exit 8; }
cd /verif; timeout 3000 python3 run_check.py $P "$@" > /tmp/try_$S.log 2>&1; rc=$?
cd /repo; git checkout -- . 
echo "seed=$S prop=$P rc=$rc $(grep -c '^VIOLATION' /tmp/try_$S.log) violation line(s)"; grep -E "^VIOLATION|^INCONCLUSIVE|FAILED:" /tmp/try_$S.log | cut -c1-220 | head -8
