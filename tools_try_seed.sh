#!/bin/bash
# usage: tools_try_seed.sh <seed dir name under /verif/seeded> <property> [--only regex]
# Applies the seeded change to a scratch worktree of /repo's HEAD (never to /repo itself), runs the property's
# check against it (VERIF_REPO), removes the worktree. Prints the verdict.
S=$1; P=$2; shift 2
WT=/tmp/wt/try_$S_$$
mkdir -p /tmp/wt
git -C /repo worktree add --detach $WT HEAD > /dev/null 2>&1 || { echo "cannot create worktree"; exit 9; }
PF=/verif/seeded/$S/patch.diff; [ -f /verif/seeded/$S/patch_on_fixed_tree.diff ] && PF=/verif/seeded/$S/patch_on_fixed_tree.diff
if ! git -C $WT apply $PF; then echo "seed=$S PATCH DOES NOT APPLY"; git -C /repo worktree remove --force $WT; exit 8; fi
cd /verif; VERIF_REPO=$WT VERIF_EVIDENCE_DIR=/tmp/try_evidence timeout 3000 python3 run_check.py $P "$@" > /tmp/try_$S.log 2>&1; rc=$?
git -C /repo worktree remove --force $WT
echo "seed=$S prop=$P rc=$rc $(grep -c '^VIOLATION' /tmp/try_$S.log) violation line(s)"; grep -E "^VIOLATION|^INCONCLUSIVE|FAILED:" /tmp/try_$S.log | cut -c1-220 | head -8
