#!/usr/bin/env python3
"""usage: tools_probe.py <prop> <tier> <query regex>  -- compile the first matching query and print the cbmc command line (for profiling by hand)"""
import importlib, os, re, sys
sys.path.insert(0, os.path.dirname(os.path.abspath(__file__)))
from vlib import core
mod = importlib.import_module("checks." + sys.argv[1])
q = [q for q in mod.queries(sys.argv[2]) if re.search(sys.argv[3], q.name)][0]
run = core.Runner(sys.argv[1] + "probe", sys.argv[2], 0)
wd = os.path.join(run.work, "q"); os.makedirs(wd)
if q.gen: q.gen(wd)
gb, err = run.compile(q, wd, False)
print(err) if not gb else print(" ".join(run.cbmc_cmd(q, gb, False)))
