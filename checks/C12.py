import os
from vlib.core import Query, VERIF
H = "Source/Lib/Encoder/Globals/EbEncHandle.c:"
def rows():
    out = []
    for l in open(os.path.join(VERIF, "models", "param_doc.tsv")):
        if l.startswith("#") or not l.strip():
            continue
        f = l.rstrip("\n").split("\t")
        out.append((f[0], int(f[1]), int(f[2]), f[3]))
    return out
def gen(wd):
    rs = rows()
    with open(os.path.join(wd, "c12_fields.inc"), "w") as f:
        for i, (name, lo, hi, cite) in enumerate(rs):
            f.write('    case %d: c.%s = (__typeof__(c.%s))v; V_ASSUME((int64_t)c.%s == v); break;\n' % (i, name, name, name))
    with open(os.path.join(wd, "c12_asserts.inc"), "w") as f:
        for i, (name, lo, hi, cite) in enumerate(rs):
            f.write('    case %d: V_ASSERT(ACC(r) == (v >= %d && v <= %d), "%s accepted exactly within its documented range [%d,%d] (%s)"); break;\n'
                    % (i, lo, hi, name, lo, hi, cite.replace('"', "'")))
META = {
    "level_text": "Differential check of the real copy_api_from_app + verify_settings against clauses transcribed from the documentation (models/param_doc.tsv, one row per field with the line it cites): starting from the library defaults with a valid picture size, ONE field (chosen by a solver variable) takes EVERY value of its type; the configuration must be accepted exactly inside the documented range. Coupled constraints (picture size, min/max QP, tile layout, rate-control x look-ahead x intra period, profile x bit depth x colour format) have their own queries with all coupled fields symbolic.",
    "level_note": "One-field-at-a-time (plus the listed coupled groups): pairwise combinations of unrelated fields are outside. Fields whose documentation gives no range are not in the table. Documentation/code disagreements found on the unchanged tree are in known_findings.txt.",
    "technique": "CBMC differential harness: real validator vs. table-generated documented-range oracle, field selector and value symbolic",
    "assumptions": ["all other fields at the library defaults, picture 640x480"],
    "outside": ["combinations of more than one out-of-range field", "fields without a documented range"],
    "stubs": [], "explanation": ""}
F = [H + "copy_api_from_app", H + "verify_settings", H + "svt_svt_enc_init_parameter"]
def queries(tier):
    n = len(rows())
    qs = [Query(name="single_fields", harness="C12/param.c", entry="single_fields", defines=["NFIELDS=%d" % n], gen=gen, unwind=34, funcs=F, timeout=1200, mem_gb=24,
                bound="%d documented scalar fields, each over its full 32-bit value range, others at defaults" % n, what="accepted exactly within the documented range")]
    for e, b in (("picture_size", "all 2^64 width x height pairs"), ("qp_bounds", "all min/max QP pairs"), ("tiles", "all tile_rows x tile_columns pairs"),
                 ("rc_lookahead", "rate control 0..2 x intra period -2..300 x all look-ahead values"), ("profile_depth_format", "profile 0..3 x all bit depths x colour formats 0..4")):
        qs.append(Query(name=e, harness="C12/param.c", entry=e, defines=["NFIELDS=%d" % n], gen=gen, unwind=34, funcs=F, timeout=900, mem_gb=24, bound=b, what="coupled constraint accepted/rejected as documented"))
    return qs
