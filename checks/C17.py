import os, re
from vlib.core import Query
from vlib import slicer
def gen(wd):
    path = "Source/Lib/Common/Codec/EbUtility.c"
    src = slicer.read(path)
    decls = re.findall(r"^uint32_t (?:max_sb|max_depth|max_part|max_num_active_blocks)[^;]*;", src, re.M)
    if len(decls) != 4:
        raise RuntimeError("geometry globals not found in EbUtility.c")
    protos = "uint32_t count_total_num_of_active_blks(void);\nvoid depth_scan_all_blks(void);\nvoid md_scan_all_blks(uint32_t *idx_mds, uint32_t sq_size, uint32_t x, uint32_t y, int32_t is_last_quadrant, uint8_t quad_it);\nvoid finish_depth_scan_all_blks(void);\nvoid log_redundancy_similarity(uint32_t max_block_count);\n"
    open(os.path.join(wd, "c17_geom.inc"), "w").write("\n".join(decls) + "\n" + protos + slicer.function(src, "build_blk_geom"))
def gen_psg(wd):
    path = "Source/Lib/Encoder/Codec/EbPredictionStructure.c"
    src = slicer.read(path)
    f = slicer.function(src, "prediction_structure_group_ctor")
    cut = f.find("    // Count the number of Prediction Structures")
    if cut < 0:
        raise RuntimeError("anchor not found in prediction_structure_group_ctor")
    body = f[:cut]
    head = re.sub(r"EbErrorType\s+prediction_structure_group_ctor\s*\(", "static EbErrorType psg_ctor_prefix(", body, count=1)
    if head == body:
        raise RuntimeError("signature of prediction_structure_group_ctor not recognised")
    open(os.path.join(wd, "c17_psg_prefix.inc"), "w").write("/* sliced verbatim: prediction_structure_group_ctor up to the structure count */\n" + head + "    (void)pred_struct_index; (void)ref_idx; (void)hierarchical_level_idx; (void)pred_type_idx; (void)number_of_references;\n    return EB_ErrorNone;\n}\n")
def gen_ctx(wd):
    from vlib import layout
    leaves = layout.leaf_fields("EbEncodeContext.h", "EncodeContext", wd)
    ptrs = [(n, t) for n, t in leaves if "*" in t and "[" not in n and "(" not in t and "." not in n]
    if len(ptrs) < 10:
        raise RuntimeError("pointer fields of EncodeContext not recognised (%d)" % len(ptrs))
    skip = ("app_callback_ptr", "dctor")
    with open(os.path.join(wd, "c17_ctx_fields.inc"), "w") as f:
        for n, t in ptrs:
            if n in skip:
                continue
            f.write('    FRESH(a->%s, b->%s, "%s");\n' % (n, n, n))
META = {
    "level_text": "2-call queries on the two pieces of process-global state that per-instance initialisation writes: after instance A initialises and instance B initialises with arbitrary (possibly different) parameters, A's view of the globals is asserted unchanged. Both assertions FAIL on the unchanged tree by construction of the code (the globals are rebuilt in place) and are recorded as known findings with their replay; the check exists so that the findings stay visible and any further shared global added to these two initialisers is reported as new.",
    "level_note": "Shared-state level only; that two concurrently running encodes actually diverge needs a two-instance run, which is not encodable. The table builders called by build_blk_geom are empty stubs: only the geometry parameters selected for the tables are compared.",
    "technique": "CBMC self-composition over two initialisation calls on the real initialisers",
    "assumptions": [], "outside": ["decoder memory-map globals", "lp_group"],
    "stubs": ["count_total_num_of_active_blks, depth_scan_all_blks, md_scan_all_blks, finish_depth_scan_all_blks, log_redundancy_similarity (table builders; empty stubs)"], "explanation": ""}
def queries(tier):
    def ps(manual, hl, en):
        return Query(name="pred_struct_defaults_private_manual%d_hl%d_n%d" % (manual, hl, en), harness="C17/predstruct.c", gen=gen_psg, unwind=64, timeout=900, flags=["--object-bits", "10"],
                     defines=["MANUAL=%d" % manual, "HL=%d" % hl, "EN=%d" % en],
                     funcs=["Source/Lib/Encoder/Codec/EbPredictionStructure.c:prediction_structure_group_ctor (up to the structure count, sliced)", "Source/Lib/Encoder/Codec/EbPredictionStructure.c:prediction_structure_config_array_ctor"],
                     bound="every preset 0..13; manual prediction structure %s" % ("off" if not manual else "on, %d hierarchical levels, %d entries, arbitrary entry contents" % (hl, en)),
                     what="construction customises a private copy; the process-wide default tables stay bit-identical and are not aliased by the instance")
    ctx = Query(name="encode_context_storage_private", harness="C17/enc_ctx.c", gen=gen_ctx, unwind=6, timeout=900, flags=["--object-bits", "10", "--slice-formula"],
                funcs=["Source/Lib/Encoder/Codec/EbEncodeContext.c:encode_context_ctor", "Source/Lib/Encoder/Codec/EbEncodeContext.c:create_stats_buffer"],
                bound="two instances; queue depths scaled to 2; entry constructors and rate_control_tables_init stubbed", what="every pointer field the constructor fills refers to heap storage private to the instance (pointer-field list from the clang record layout)")
    return [ctx, ps(0, 3, 1), ps(1, 2, 4), ps(1, 0, 1),
            Query(name="blk_geom_shared", harness="C17/globals.c", defines=["MODE=1"], unwind=4, timeout=600, gen=gen,
                  funcs=["Source/Lib/Common/Codec/EbUtility.c:build_blk_geom"], bound="two initialisations, superblock size 64/128 each", what="instance A's block geometry survives instance B's initialisation"),
            Query(name="rtcd_shared", harness="C17/globals.c", defines=["MODE=2"], unwind=4, simd=True, timeout=600, flags=["--object-bits", "12"],
                  funcs=["Source/Lib/Common/Codec/common_dsp_rtcd.c:setup_common_rtcd_internal"], bound="two initialisations, all CPU-flag words", what="instance A's kernel selection survives instance B's initialisation")]
