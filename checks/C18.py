import os, re
from vlib.core import Query, REPO
def gen_block(wd):
    src = open(os.path.join(REPO, "Source/Lib/Encoder/Codec/EbRateControlProcess.c")).read()
    a = "            if (scs_ptr->static_config.rate_control_mode == 0) {\n                // if RC mode is 0,  fixed QP is used"
    b = "            pcs_ptr->parent_pcs_ptr->picture_qp = pcs_ptr->picture_qp;\n\n            if (pcs_ptr->parent_pcs_ptr->temporal_layer_index == 0 &&"
    if src.count(a) != 1 or src.count(b) != 1:
        raise RuntimeError("anchors of the quantiser-assignment block in rate_control_kernel not found exactly once")
    blk = src[src.index(a):src.index(b)]
    if blk.count("{") != blk.count("}"):
        raise RuntimeError("sliced block is not brace-balanced")
    with open(os.path.join(wd, "c18_block.inc"), "w") as f:
        f.write("/* sliced verbatim from rate_control_kernel (EbRateControlProcess.c) */\n"
                "static void qp_block(SequenceControlSet *scs_ptr, PictureControlSet *pcs_ptr, FrameHeader *frm_hdr, void *context_ptr,\n"
                "    void *rate_control_layer_ptr, void *rate_control_param_ptr, void *prev_gop_rate_control_param_ptr, void *next_gop_rate_control_param_ptr) {\n"
                "    rate_control rc;\n" + blk + "\n    pcs_ptr->parent_pcs_ptr->picture_qp = pcs_ptr->picture_qp;\n}\n")
    # recode-loop clamp (EbEncDecProcess.c)
    src2 = open(os.path.join(REPO, "Source/Lib/Encoder/Codec/EbEncDecProcess.c")).read()
    m = re.search(r"static void recode_loop_decision_maker\(.*?\n}\n", src2, re.S)
    if not m:
        raise RuntimeError("recode_loop_decision_maker not found")
    with open(os.path.join(wd, "c18_recode.inc"), "w") as f:
        f.write(m.group(0))
R = "Source/Lib/Encoder/Codec/EbRateControlProcess.c:rate_control_kernel (quantiser-assignment block, sliced)"
META = {
    "level_text": "The quantiser-assignment block of the real rate_control_kernel (sliced verbatim between anchors, regenerated every run) executed from an ARBITRARY pre-state: all rate-control modes, all min/max/qp triples, all fixed offsets, all frame types and temporal layers, with every quantiser-picking callee replaced by a stub returning an arbitrary value; assertion: the resulting base_q_idx respects the property's three clauses. One kernel iteration from an arbitrary state covers every picture of every stream as far as this block is concerned.",
    "level_note": "The callees' internals (VBR/CVBR models, TPL) are abstracted to 'any value', which is sound for the bound property (the clamp must hold whatever they return). The recode loop clamp in EbEncDecProcess.c is a second query. Per-SB/segment delta-q is outside.",
    "technique": "CBMC on a verbatim source slice with over-approximating stubs (arbitrary callee results)",
    "assumptions": ["configuration fields within the ranges validation accepts (qp<=63, min_qp<=62, max_qp<=63, min<=max, offsets in [-256,255])", "pcs->picture_qp == configured qp on entry unless qp is forced per picture (set earlier in the kernel)"],
    "outside": ["quantiser pickers' internals", "per-superblock delta-q"],
    "stubs": ["cqp_qindex_calc(_tpl_la), rc_pick_q_and_bounds, find_fp_qindex (arbitrary int32)", "frame_level_rc_input_picture_vbr/cvbr, rate_control_refinement (arbitrary picture_qp)", "setup_segmentation, process_tpl_stats_frame_kf_gfu_boost (no effect on base_q_idx)"],
    "explanation": ""}
def queries(tier):
    return [Query(name="rc_qp_block", harness="C18/qp.c", gen=gen_block, unwind=8, funcs=[R], timeout=600,
                  bound="one kernel iteration, arbitrary pre-state, all configurations of the listed fields", what="base_q_idx within configured bounds / equals configured index (+offset, clipped)"),
            Query(name="qindex_table_monotone", harness="C18/table.c", unwind=70, funcs=["Source/Lib/Encoder/Codec/EbModeDecisionProcess.h:quantizer_to_qindex"], timeout=120,
                  bound="all pairs of QP 0..63", what="QP to qindex mapping is strictly increasing, so index bounds and QP bounds agree")]
