"""C07: SIMD kernels are bit-exact drop-ins for their C references (engine E4: both real bodies run
symbolically on the same arbitrary input; the solver searches for any input where outputs differ)."""
from vlib.core import Query

META = {
    "engine": "E4 SIMD-vs-C equivalence",
    "level_text": "For each listed kernel pair and block geometry, CBMC runs the real AVX2/SSE2 kernel body and the real C reference on the same arbitrary sample content (all 2^(8n)/2^(16n) inputs, extremes included) and proves every output element equal, every element outside the block untouched, and every access inside exact-size heap buffers. x86 intrinsics are evaluated by gcc's own header definitions where they are plain vector C, and by lane-wise C bodies (models/ia32_models.h) for the builtins CBMC lacks; a translator-validation query proves CBMC's evaluation of every intrinsic used equals the CPU's result on concrete operand vectors.",
    "level_note": "Kernels covered: svt_convert_16bit_to_8bit_avx2, svt_convert_8bit_to_16bit_avx2, svt_residual_kernel8bit_avx2, svt_residual_kernel16bit_avx2, svt_residual_kernel16bit_sse2_intrin, svt_picture_average_kernel_sse2_intrin, svt_unpack_avg_avx2_intrin, svt_unpack_avg_sse2_intrin, svt_enc_un_pack8_bit_data_avx2_intrin (element-wise, all AV1 block widths 4..64, 4 rows); svt_spatial_full_distortion_kernel_avx2 for 4x2 blocks only; and every intrinsics-written 8-bit/10-bit intra predictor of the families v, h, dc_128 (blocks up to 512 samples; v and dc_128 up to 64x64 in the thorough tier) and dc/dc_top/dc_left while the DC sum has at most 8 terms -- the list is derived from the SET_* lines of common_dsp_rtcd.c on every run (currently about 100 kernel pairs). Smooth/paeth predictors did not finish in 300 s even at 4x4 and are outside. svt_av1_quantize_fp_avx2 / _fp_32x32_avx2 / _fp_64x64_avx2 are compared with their C references on a 16-coefficient block for every 16-bit coefficient value under 16 concrete dequant pairs (symbolic quantiser tables did not finish in 900 s). Reduction kernels (SSE/SAD/variance) beyond 8 accumulated terms are outside: equality of two differently associated 16-term sums is SAT-hard (isolated 10-line test > 120 s on all SAT back ends) and CBMC's SMT back ends abort on gcc vector casts, so those kernels, the transform/convolve/intra-prediction kernels, AVX512, and all other dispatch entries are not claimed.",
    "technique": "solver-based checking of the real code (CBMC bounded symbolic execution of the real SIMD kernel body and its C reference on the same symbolic input; equivalence assertion; intrinsic models validated against the CPU)",
    "assumptions": ["svt_convert_16bit_to_8bit: source samples <= 255 (16-bit containers of 8-bit data; the AVX2 pack saturates where the C cast truncates)",
                    "squaring in the SSE query abstracted by an arbitrary 16-bit table shared by both sides (sound: the real squares are one instance)"],
    "outside": ["reduction kernels with more than 8 terms", "all kernels not listed", "AVX512 variants", "heights other than the listed ones"],
    "stubs": ["models/ia32_models.h: lane-wise C bodies for __builtin_ia32_* without CBMC body; byte-copy replacements for _mm_loadl_epi64/_mm_storel_epi64 and the si128<->pd casts (CBMC 6.11 evaluates those casts numerically)"],
    "explanation": ""}


def conv(w, h=2):
    return Query(name=f"convert_16bit_to_8bit_avx2_eq_c_w{w}", harness="C07/conv16to8.c", simd=True,
                 defines=[f"W={w}", f"H={h}"], unwind=(w + 4) * h + 2, timeout=300,
                 funcs=["svt_convert_16bit_to_8bit_avx2", "svt_convert_16bit_to_8bit_c"],
                 bound=f"width={w}, height={h}, src stride w+1, dst stride w+2, samples 0..255 in 16-bit containers, exact-size heap buffers",
                 what="every output byte equal, bytes outside the block untouched, no out-of-bounds access")


def sse(w, h=2, to=600):
    return Query(name=f"spatial_sse_8bit_avx2_eq_c_{w}x{h}", harness="C07/sse8.c", simd=True, defines=[f"W={w}", f"H={h}"],
                 unwind=max(258, ((w + 31) // 32) * 32 * h + 2), timeout=to,
                 funcs=["svt_spatial_full_distortion_kernel_avx2", "svt_spatial_full_distortion_kernel_c"],
                 bound=f"block {w}x{h}, rows padded to a multiple of 32 bytes, every 8-bit content of both pictures; squaring abstracted by an arbitrary table (see models/ia32_models.h)",
                 what="returned SSE identical")


def gen_expected(wd):
    """run the intrinsic self-test on the real CPU (gcc build) and store the results for the CBMC side"""
    import os, subprocess
    from vlib import core
    exe = os.path.join(wd, "intrin_gen")
    cmd = ["gcc", "-O1", "-w", "-std=gnu99", "-mavx2", "-msse4.1", "-mssse3", "-DGEN=1", "-I" + os.path.join(core.VERIF, "vlib"),
           "-I" + os.path.join(core.VERIF, "models"), os.path.join(core.VERIF, "harness/C07/intrin_selftest.c"), "-o", exe]
    subprocess.run(cmd, check=True, capture_output=True, timeout=120)
    out = subprocess.run([exe], check=True, capture_output=True, timeout=60).stdout.decode()
    with open(os.path.join(wd, "intrin_expected.inc"), "w") as f:
        f.write(out)


def selftest():
    return Query(name="intrinsic_semantics_match_cpu", harness="C07/intrin_selftest.c", simd=True, gen=gen_expected, unwind=40, timeout=900,
                 flags=["--object-bits", "12"], funcs=["models/ia32_models.h (all bodies)", "gcc 12 *intrin.h definitions of the intrinsics used"],
                 bound="6 operand vectors per intrinsic (extremes 0/0x7f/0x80/0xff + pseudo-random)",
                 what="CBMC's evaluation of each intrinsic used by the C07 kernels equals the CPU's result (translator validation)")


def gen_cref(wd):
    import os
    from vlib import slicer
    with open(os.path.join(wd, "c07_cref.inc"), "w") as f:
        f.write(slicer.functions("Source/Lib/Common/Codec/EbPictureOperators.c", ["svt_residual_kernel16bit_c", "svt_residual_kernel8bit_c"]))


KERNELS = {1: ("residual_kernel8bit_avx2", "svt_residual_kernel8bit_avx2", "svt_residual_kernel8bit_c"),
           2: ("residual_kernel16bit_avx2", "svt_residual_kernel16bit_avx2", "svt_residual_kernel16bit_c"),
           3: ("residual_kernel16bit_sse2", "svt_residual_kernel16bit_sse2_intrin", "svt_residual_kernel16bit_c"),
           4: ("convert_8bit_to_16bit_avx2", "svt_convert_8bit_to_16bit_avx2", "svt_convert_8bit_to_16bit_c"),
           5: ("picture_average_sse2", "svt_picture_average_kernel_sse2_intrin", "svt_picture_average_kernel_c"),
           6: ("unpack_avg_avx2", "svt_unpack_avg_avx2_intrin", "svt_unpack_avg_c"),
           7: ("unpack_avg_sse2", "svt_unpack_avg_sse2_intrin", "svt_unpack_avg_c"),
           8: ("un_pack8_bit_data_avx2", "svt_enc_un_pack8_bit_data_avx2_intrin", "svt_un_pack8_bit_data_c")}


def elem(k, w, h=4, to=300):
    n, f1, f2 = KERNELS[k]
    return Query(name=f"{n}_eq_c_{w}x{h}", harness="C07/elementwise.c", simd=True, gen=gen_cref, defines=[f"W={w}", f"H={h}", f"KERNEL={k}"],
                 unwind=(w + 4) * h + 2, timeout=to, funcs=[f1, f2],
                 bound=f"block {w}x{h}, strides w+1/w+2/w+3, every sample content, exact-size heap buffers",
                 what="every output element equal, elements outside the block untouched, no out-of-bounds access")


def sse_sparse(w, h, g, n=4, to=300):
    return Query(name=f"spatial_sse_8bit_avx2_eq_c_{w}x{h}_sparse{n}_g{g}", harness="C07/sse8.c", simd=True,
                 defines=[f"W={w}", f"H={h}", f"SPARSE_G={g}", f"SPARSE_N={n}"], unwind=max(258, ((w + 31) // 32) * 32 * h + 2), timeout=to,
                 funcs=["svt_spatial_full_distortion_kernel_avx2", "svt_spatial_full_distortion_kernel_c"],
                 bound=f"block {w}x{h}; pixels {g * n}..{g * n + n - 1} (raster order) of input and recon arbitrary, all other bytes 0x80 in both; squaring abstracted by an arbitrary table with T[0]=0",
                 what="returned SSE identical")


def sse_sparse_real(w, h, g, n=2, to=300):
    return Query(name=f"spatial_sse_8bit_avx2_eq_c_{w}x{h}_real{n}_g{g}", harness="C07/sse8.c", simd=True,
                 defines=[f"W={w}", f"H={h}", f"SPARSE_G={g}", f"SPARSE_N={n}", "V_REAL_SQUARE=1"], unwind=max(258, ((w + 31) // 32) * 32 * h + 2), timeout=to,
                 funcs=["svt_spatial_full_distortion_kernel_avx2", "svt_spatial_full_distortion_kernel_c"],
                 bound=f"block {w}x{h}; pixels {g * n}..{g * n + n - 1} (raster order) of input and recon arbitrary (all 2^{16 * n} contents), all other bytes 0x80 in both; real multiplications (no squaring abstraction)",
                 what="returned SSE identical")


_PRED_CACHE = {}


def pred_pairs():
    """(pointer, c function, simd function, defining .c file, W, H, highbd) for every intra predictor whose SIMD variant is written with intrinsics"""
    import os, re, subprocess
    from vlib import core, slicer
    if "p" in _PRED_CACHE:
        return _PRED_CACHE["p"]
    src = slicer.read("Source/Lib/Common/Codec/common_dsp_rtcd.c")
    out = []
    names = {}
    for m in re.finditer(r"\bSET_([A-Z0-9_]+)\(\s*(svt_aom_(highbd_)?[a-z0-9_]*_predictor_(\d+)x(\d+))\s*,([^;]*?)\)\s*;", src, re.S):
        kind, ptr, hb, w, h = m.group(1), m.group(2), bool(m.group(3)), int(m.group(4)), int(m.group(5))
        rest = [a.strip() for a in m.group(6).split(",")]
        levels = [] if kind == "ONLY_C" else kind.split("_")
        for v, l in zip(rest[1:], levels):
            if l != "AVX512":
                names[v] = (ptr, rest[0], w, h, hb)
    if not names:
        raise RuntimeError("no predictor dispatch lines recognised")
    # one grep over the intrinsic sources for all definitions
    dirs = [os.path.join(core.REPO, "Source/Lib/Common", d) for d in ("ASM_SSE2", "ASM_SSSE3", "ASM_SSE4_1", "ASM_AVX2")]
    r = subprocess.run(["grep", "-rnE", "--include=*.c", r"^(void|static void|EB_API void) *svt_aom_[a-z0-9_]*_predictor_[0-9]+x[0-9]+_[a-z0-9]+ *\(", *dirs], capture_output=True, text=True)
    where = {}
    for line in r.stdout.splitlines():
        f, _, txt = line.split(":", 2)
        mm = re.search(r"(svt_aom_[a-z0-9_]*_predictor_[0-9]+x[0-9]+_[a-z0-9]+) *\(", txt)
        if mm:
            where[mm.group(1)] = os.path.relpath(f, core.REPO)
    for v, (ptr, c, w, h, hb) in sorted(names.items()):
        if v in where:
            out.append((ptr, c, v, where[v], w, h, hb))
    _PRED_CACHE["p"] = out
    return out


def pred(ptr, c, v, f, w, h, hb, to=300):
    def gen(wd, f=f):
        import os
        with open(os.path.join(wd, "c07_pred_srcs.inc"), "w") as o:
            o.write('#include "%s"\n' % f)
            o.write('#include "Source/Lib/Common/Codec/EbIntraPrediction.c"\n')
            from vlib import slicer
            o.write("/* EbCdef.c:svt_aom_memset16, sliced by name */\n" + slicer.functions("Source/Lib/Common/Codec/EbCdef.c", ["svt_aom_memset16"]))
    return Query(name="%s_eq_c" % v.replace("svt_aom_", ""), harness="C07/intrapred.c", simd=True, gen=gen, defines=["FN_C=%s" % c, "FN_S=%s" % v, "BLK_W=%d" % w, "BLK_H=%d" % h, "HIGHBD=%d" % (1 if hb else 0)],
                 unwind=max(2 * w, 2 * h, (w + 3) * h) + 40, timeout=to, flags=["--object-bits", "10"], funcs=[f + ":" + v, "Source/Lib/Common/Codec/EbIntraPrediction.c:" + c],
                 bound="block %dx%d, %s samples, every content of the above/left edge arrays (16 samples of slack before, extensions after)" % (w, h, "10-bit" if hb else "8-bit"),
                 what="every predicted sample equal, samples outside the block untouched, no out-of-bounds access")


def pred_family(x):
    return x[2].replace("svt_aom_", "").replace("highbd_", "").split("_predictor_")[0]


def pred_selected(tier):
    """predictor pairs measured to be decidable: copy/broadcast families at all sizes, DC families while the reduction has <= 8 terms (see DESIGN.md section 1);
    smooth/paeth (per-sample products in differently associated sums) did not finish in 300 s even at 4x4 and are outside"""
    out = []
    for x in pred_pairs():
        fam, w, h = pred_family(x), x[4], x[5]
        small = w * h <= 512
        if fam in ("h", "v", "dc_128"):
            if small or (tier == "thorough" and fam in ("v", "dc_128")):
                out.append(x)
        elif (fam == "dc_top" and w <= 4) or (fam == "dc_left" and h <= 4) or (fam == "dc" and w + h <= 8):
            if small:
                out.append(x)
    return out


def gen_quant(wd):
    import os
    from vlib import slicer
    open(os.path.join(wd, "c07_quant_c.inc"), "w").write(slicer.functions("Source/Lib/Encoder/Codec/EbFullLoop.c", ["quantize_fp_helper_c", "svt_av1_quantize_fp_c", "svt_av1_quantize_fp_32x32_c", "svt_av1_quantize_fp_64x64_c"]))


def quant(dq0, dq1, kind=0):
    kn = ("fp", "fp_32x32", "fp_64x64")[kind]
    return Query(name="quantize_%s_avx2_eq_c_dq%d_%d" % (kn, dq0, dq1), harness="C07/quant.c", simd=True, gen=gen_quant, unwind=36, timeout=900, defines=["DQ0=%d" % dq0, "DQ1=%d" % dq1, "KIND=%d" % kind], flags=["--slice-formula", "--object-bits", "10"],
                 funcs=["Source/Lib/Encoder/ASM_AVX2/av1_quantize_avx2.c:svt_av1_quantize_%s_avx2" % kn, "Source/Lib/Encoder/Codec/EbFullLoop.c:svt_av1_quantize_%s_c" % kn],
                 bound="16 coefficients (one vector step), every 16-bit coefficient value, dequant DC/AC = %d/%d with the derived quant/round tables (quant = 65536/dequant, round = 64*dequant>>7), identity scan" % (dq0, dq1) + "",
                 what="quantised and dequantised coefficients and end-of-block position identical")


def queries(tier):
    qs = [selftest()] + [conv(w) for w in (4, 8, 24, 32, 40, 64)]
    qs += [elem(k, w) for k in (1, 2, 3, 4, 5, 6, 7, 8) for w in (4, 8, 16, 32, 64)]
    qs += [sse(4, 2)]
    qs += [pred(*x, to=600) for x in pred_selected(tier)]
    qs += [quant(a, b) for a, b in ((4, 4), (8, 8), (9, 10), (13, 16), (21, 27), (40, 48), (83, 8), (83, 97), (160, 212), (255, 311), (400, 500), (640, 800), (1000, 1200), (1336, 1336), (4, 1336), (1336, 4))]
    qs += [quant(a, b, k) for k in (1, 2) for a, b in ((4, 4), (83, 8), (160, 212), (640, 800), (1336, 1336))]
    if tier == "thorough":
        qs += [conv(w) for w in (1, 2, 3, 5, 7, 12, 16, 17, 31, 33, 48, 63, 65, 72, 96, 128)]
        qs += [quant(9, 10, 1), quant(9, 10, 2), quant(21, 27, 1), quant(21, 27, 2)]
        qs += [sse_sparse(w, 1, w // 4 - 1, 4, 1800) for w in (12, 20, 24, 28)]   # the masked tail paths (area_width % 32 = 12/20/24/28), last 4 columns symbolic; measured 307 s (20x1) / 522 s (28x1) on a loaded machine
        qs += [sse_sparse(w, 2, g) for w in (8, 16) for g in range(w * 2 // 4)]  # measured: 61 s (8x2) / 101 s (16x2) per query; 32x2 does not finish in 300 s
        qs += [elem(k, w, 8, 900) for k in (1, 2, 3, 4, 5) for w in (4, 8, 16, 32, 64)] + [elem(k, 128, 8, 900) for k in (1, 4, 5)]   # 16-bit residual kernels at 128x8 did not finish in 300 s under load
    return qs
