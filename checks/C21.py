import os, re
from vlib.core import Query, REPO
def gen_pad(wd):
    src = open(os.path.join(REPO, "Source/Lib/Encoder/Codec/EbPictureAnalysisProcess.c")).read()
    out = []
    for fn in ("pad_picture_to_multiple_of_min_blk_size_dimensions", "pad_input_pictures"):
        m = re.search(r"^void %s\(.*?^}\n" % fn, src, re.S | re.M)
        if not m:
            raise RuntimeError("function %s not found in EbPictureAnalysisProcess.c" % fn)
        out.append(m.group(0))
    from vlib import slicer
    mcp = slicer.functions("Source/Lib/Common/Codec/EbMcp.c", ["generate_padding", "pad_input_picture"])
    with open(os.path.join(wd, "c21_pad.inc"), "w") as f:
        f.write(mcp + "/* sliced verbatim from EbPictureAnalysisProcess.c */\n" + "\n".join(out))
E1 = "Source/Lib/Encoder/Globals/EbEncHandle.c:copy_frame_buffer"
F = [E1, "Source/Lib/Encoder/Codec/EbPictureAnalysisProcess.c:pad_input_pictures", "Source/Lib/Encoder/Codec/EbPictureAnalysisProcess.c:pad_picture_to_multiple_of_min_blk_size_dimensions",
     "Source/Lib/Common/Codec/EbMcp.c:generate_padding", "Source/Lib/Common/Codec/EbMcp.c:pad_input_picture", "Source/Lib/Common/Codec/EbPictureOperators.c:un_pack2d",
     "Source/Lib/Common/Codec/EbPictureBufferDesc.c:svt_picture_buffer_desc_ctor"]
META = {
    "engine": "E3 self-composition",
    "level_text": "2-safety query over the real copy_frame_buffer and the real padding regeneration: for ALL pairs of caller pictures with equal visible samples, different strides (tight vs. width+5/+3/+1) and arbitrary bytes everywhere else, the two library-side pictures (whole buffers, margins included) are byte-identical after copy + padding; the caller's planes are sized exactly stride x height and are freed before padding, so any read outside them or after return is a pointer-check failure.",
    "level_note": "Small pictures (10x6 visible, padded to 16x8, margin 4 instead of 68); 4:2:0; 8-bit and 10-bit unpacked; the compressed 10-bit format is rejected by validation and not covered. Effects downstream of picture analysis are outside.",
    "technique": "CBMC self-composition (two symbolic callers) over real copy + padding code; functions of EbPictureAnalysisProcess.c sliced verbatim by name",
    "assumptions": ["scs padding fields as set_param_based_on_input derives them for the visible size", "svt_memcpy dispatch pointer = memcpy"],
    "outside": ["picture sizes other than the listed ones", "4:2:2/4:4:4"],
    "stubs": ["svt_memcpy -> memcpy"], "explanation": ""}
def q(bits, vw, vh, to=900):
    return Query(name="copy_pad_%dbit_%dx%d" % (bits, vw, vh), harness="C21/copy.c", defines=["BITS=%d" % bits, "VW=%d" % vw, "VH=%d" % vh], gen=gen_pad,
                 unwind=max((vw + 8) * vh * (2 if bits > 8 else 1), 24 * 16) + 2, flags=["--object-bits", "12"], funcs=F, timeout=to, mem_gb=24,
                 bound="visible %dx%d, %d-bit, caller A with tight strides, caller B with strides width+5 / chroma+3 / chroma+1, all sample and padding byte values" % (vw, vh, bits),
                 what="library picture depends only on visible samples; no access outside caller planes; caller memory not used after return")
def queries(tier):
    qs = [q(8, 10, 6), q(8, 10, 8), q(8, 16, 6), q(10, 10, 6)]
    if tier == "thorough":
        qs += [q(8, 8, 6, 3000)]   # 16x10 exceeds the harness comparison-loop bound and 10-bit width 12 takes the dispatched mul4 unpack kernel, whose pointer this harness does not install: both were harness limits, not findings, and are not registered
    return qs
