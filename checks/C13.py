import os
from vlib.core import Query
from vlib import layout

def gen_fields(wd):
    leaves = layout.leaf_fields("EbSvtAv1Enc.h", "EbSvtAv1EncConfiguration", wd)
    assert len(leaves) > 100, "field extraction failed"
    with open(os.path.join(wd, "c13_fields.inc"), "w") as f:
        for name, ty in leaves:
            f.write("FIELD(%s)\n" % name)

META = {
    "level_text": "2-safety (self-composition) query on the real svt_svt_enc_init_parameter: for ALL pairs of prior struct contents the two resulting configurations agree on every field (field list regenerated from the header with clang's record-layout dump), and the defaults with any valid picture size pass the real copy_api_from_app+verify_settings.",
    "level_note": "Covers the defaults function and validation only; 'identical output' then follows from identical configuration bytes plus determinism (C04-C06), which is stated, not checked here. Padding bytes are excluded.",
    "technique": "CBMC self-composition (two symbolic pre-states) over the real defaults function; field list from clang -fdump-record-layouts",
    "assumptions": ["source_width in [64,4096], source_height in [64,2160], both even (O2 only)"],
    "outside": ["effect of configuration on encode output", "svt_av1_enc_init_handle's handle allocation (C15/C16)"],
    "stubs": ["svt_log (no body)"], "explanation": ""}

F = ["Source/Lib/Encoder/Globals/EbEncHandle.c:svt_svt_enc_init_parameter"]
def queries(tier):
    return [
        Query(name="defaults_independent_of_prior_memory", harness="C13/defaults.c", defines=["MODE=1"], gen=gen_fields,
              funcs=F, bound="all 2^(8*sizeof(cfg)) x 2 prior contents; every leaf field compared",
              what="configuration written by handle creation is fully determined by the library", timeout=600,
              unwind=1400),
        Query(name="defaults_accepted", harness="C13/defaults.c", defines=["MODE=2"],
              funcs=F + ["Source/Lib/Encoder/Globals/EbEncHandle.c:copy_api_from_app", "Source/Lib/Encoder/Globals/EbEncHandle.c:verify_settings"],
              bound="all prior contents; width 64..4096, height 64..2160 even",
              what="defaults + valid size are accepted by svt_av1_enc_set_parameter's validation", timeout=600, unwind=40),
    ]
