from vlib.core import Query
W = "Source/Lib/Common/Codec/EbBitstreamUnit.c:"
R = "Source/Lib/Decoder/Codec/EbDecBitstreamUnit.h:"
FW = [W + "svt_od_ec_encode_cdf_q15", W + "svt_od_ec_encode_bool_q15", W + "od_ec_enc_normalize", W + "svt_od_ec_enc_done", W + "svt_od_ec_enc_tell",
      "Source/Lib/Common/Codec/EbBitstreamUnit.h:aom_write_symbol", "Source/Lib/Common/Codec/EbCabacContextModel.h:update_cdf"]
FR = [R + "od_ec_decode_cdf_q15", R + "od_ec_decode_bool_q15", R + "od_ec_dec_refill", R + "od_ec_dec_normalize", R + "dec_update_cdf",
      "Source/Lib/Decoder/Codec/EbDecBitReader.h:aom_read_symbol_"]
META = {
    "level_text": "The round trips are repeated with the writer initialised (real svt_od_ec_enc_init) with 1..3-entry buffers, and a 2-safety lemma shows that from any writer state holding 0..3 pre-carry entries the emitted bytes do not depend on the buffer capacity, i.e. output held in the buffers survives their growth (growth is otherwise first reached after 62025 bytes). Bounded symbolic round trip through the real range encoder and the real range decoder (symbols, CDFs, probabilities, adaptation flag all symbolic) plus inductive one-step lemmas from arbitrary coder states (adaptation equivalence and validity preservation for alphabets 2..16, range-register lock-step, renormalisation invariant incl. byte-offset exactness near 2^16).",
    "level_note": "End-to-end round trips are bounded to K symbols (quick: 1 multi-symbol of alphabet <=4, 1 boolean; thorough: alphabets 8/16, 2 booleans); longer sequences are covered only by the step lemmas, which are necessary but not sufficient for the round trip. Allocation failure inside the writer is assumed away (C16 territory).",
    "assumptions": ["CDF validity: 32768 > icdf[0] >= ... >= icdf[n-1] == 0, counter <= 32", "malloc succeeds in svt_od_ec_enc_init"],
    "outside": ["symbol sequences longer than the stated K end-to-end", "svt_aom_daala_stop_encode's copy into the picture bitstream buffer (C11)"],
    "stubs": [], "explanation": ""}
def queries(tier):
    th = tier == "thorough"
    U = ["--unwind", "20"]
    qs = [
        Query(name="rt_sym_K1_n4", harness="C25/ec.c", entry="rt_sym", defines=["K=1", "NMAX=4"], unwind=20, funcs=FW + FR,
              bound="1 symbol, alphabet 2..4, arbitrary valid CDF, adaptation on/off", what="decoded == written, tables equal, tell covers bytes", timeout=900),
        Query(name="rt_bool_K1", harness="C25/ec.c", entry="rt_bool", defines=["K=1"], unwind=20, funcs=FW + FR,
              bound="1 boolean, probability 1..255", what="decoded == written, tell covers bytes", timeout=900),
        Query(name="lem_update_equiv", harness="C25/ec.c", entry="lem_update_equiv", unwind=20, funcs=[FW[-1], FR[4]],
              bound="all 17-entry tables, alphabet 2..16, all symbols (one step, arbitrary state)", what="writer-side and reader-side adaptation are the same function"),
        Query(name="lem_update_valid", harness="C25/ec.c", entry="lem_update_valid", unwind=20, funcs=[FW[-1]],
              bound="all valid tables, alphabet 2..16, all symbols (one step)", what="adaptation preserves CDF validity"),
        Query(name="lem_normalize", harness="C25/ec.c", entry="lem_normalize", unwind=20, funcs=[FW[1], FW[2], FW[4]],
              bound="arbitrary writer state in its invariant; byte offsets 0..4 and 65530..65540 (one step)", what="a writer step keeps the writer invariant, never lowers the bit count, stores the byte offset exactly", timeout=900),
    ]
    for sz in (1, 2, 3):
        qs.append(Query(name="rt_bool_K1_small_buffers_%d" % sz, harness="C25/ec.c", entry="rt_bool", defines=["K=1", "SMALL_INIT=%d" % sz], unwind=20, funcs=FW + FR,
                        bound="1 boolean, probability 1..255, initial writer buffers of %d entries (growth paths of the pre-carry and byte buffers taken)" % sz, what="decoded == written although the pre-carry and byte buffers had to grow while holding output", timeout=900))
    qs.append(Query(name="rt_sym_K1_n4_small_buffers_2", harness="C25/ec.c", entry="rt_sym", defines=["K=1", "NMAX=4", "SMALL_INIT=2"], unwind=20, funcs=FW + FR,
                    bound="1 symbol, alphabet 2..4, arbitrary valid CDF, initial writer buffers of 2 entries", what="decoded == written, tables equal, although the buffers had to grow while holding output", timeout=900))
    for t in (1, 2, 3):
        for mode in ("step", "done"):
            qs.append(Query(name="lem_capacity_%s_tight%d" % (mode, t), harness="C25/ec.c", entry="lem_capacity", defines=["TIGHT=%d" % t] + (["CAP_STEP=1"] if mode == "step" else []), unwind=20,
                            funcs=[FW[1], FW[2], FW[4]] if mode == "step" else ["Source/Lib/Common/Codec/EbBitstreamUnit.c:svt_od_ec_enc_done"],
                            bound="arbitrary writer state in its invariant holding 0..%d pre-carry entries (9-bit), then %s; buffers of 64 vs %d entries" % (t, "one boolean with any probability" if mode == "step" else "termination", t),
                            what="writer state / emitted bytes identical whether or not the pre-carry / byte buffers had to grow while holding output", timeout=900))
    for n in [2]:   # n=3 did not finish in 3000 s, n=4 not in 900 s; larger alphabets not attempted
        qs.append(Query(name="lem_range_lockstep_n%d" % n, harness="C25/ec.c", entry="lem_range_lockstep", defines=["NFIX=%d" % n], unwind=20,
                        funcs=[FW[0], FW[2], FR[0], FR[3]], bound="arbitrary range 32768..65535, arbitrary window, alphabet %d (one step)" % n,
                        what="encoder and decoder range registers agree after any symbol", timeout=900 if not th else 3000))
    if th:
        qs += [
            Query(name="rt_sym_K1_n8", harness="C25/ec.c", entry="rt_sym", defines=["K=1", "NMAX=8"], unwind=20, funcs=FW + FR,
                  bound="1 symbol, alphabet 2..8", what="decoded == written, tables equal", timeout=3000),
            Query(name="rt_bool_K2", harness="C25/ec.c", entry="rt_bool", defines=["K=2"], unwind=20, funcs=FW + FR, backend="kissat",
                  bound="2 booleans", what="decoded == written", timeout=3600),
        ]
    return qs
