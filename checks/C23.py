import os, re
from vlib.core import Query
from vlib import slicer
SRM = "Source/Lib/Common/Codec/EbSystemResourceManager.c"
def gen_split(wd):
    src = slicer.read(SRM)
    out = "/* svt_get_empty_object / svt_get_full_object split verbatim at their svt_block_on_semaphore() line */\n"
    for fn, a, b, sig_a, sig_b in (("svt_get_empty_object", "get_empty_A", "get_empty_B", "EbFifo *empty_fifo_ptr", "EbFifo *empty_fifo_ptr, EbObjectWrapper **wrapper_dbl_ptr"),
                                   ("svt_get_full_object", "get_full_A", "get_full_B", "EbFifo *full_fifo_ptr", "EbFifo *full_fifo_ptr, EbObjectWrapper **wrapper_dbl_ptr")):
        body = slicer.function(src, fn)
        body = body[body.index("{") + 1:body.rindex("}")]
        lines = body.split("\n")
        idx = [i for i, l in enumerate(lines) if "svt_block_on_semaphore(" in l]
        if len(idx) != 1:
            raise RuntimeError("%s: expected exactly one semaphore wait" % fn)
        first = "\n".join(lines[:idx[0]]); second = "\n".join(lines[idx[0] + 1:])
        if "return_error" not in first.split("\n")[1] and "EbErrorType return_error" not in first:
            raise RuntimeError("%s: unexpected prologue" % fn)
        out += "static EbErrorType %s(%s) {%s\n    return return_error;\n}\n" % (a, sig_a, first)
        out += "static EbErrorType %s(%s) {\n    EbErrorType return_error = EB_ErrorNone;%s\n}\n" % (b, sig_b, second)
    # svt_fifo_shutdown split verbatim after each mutex release / semaphore post: the shutdown thread's pieces are scheduler steps
    body = slicer.function(src, "svt_fifo_shutdown")
    body = body[body.index("{") + 1:body.rindex("}")]
    pieces, cur_piece = [], []
    for l in body.split("\n"):
        if l.strip().startswith("return "):
            continue
        cur_piece.append(l)
        if "svt_release_mutex(" in l or "svt_post_semaphore(" in l:
            pieces.append("\n".join(cur_piece)); cur_piece = []
    if cur_piece and any(x.strip() and not x.strip().startswith("//") for x in cur_piece):
        pieces.append("\n".join(cur_piece))
    if not 2 <= len(pieces) <= 3:
        raise RuntimeError("svt_fifo_shutdown: unexpected shape (%d pieces)" % len(pieces))
    out += "#define FIFO_SHUTDOWN_PIECES %d\nstatic void fifo_shutdown_piece(EbFifo *fifo_ptr, int piece) {\n    EbErrorType return_error = EB_ErrorNone; (void)return_error;\n" % len(pieces)
    for i, pc in enumerate(pieces):
        pc = "\n".join(x for x in pc.split("\n") if "EbErrorType return_error" not in x)
        out += "    if (piece == %d) {\n%s\n    }\n" % (i, pc)
    out += "}\n"
    open(os.path.join(wd, "c23_split.inc"), "w").write(out)
S = "Source/Lib/Common/Codec/EbSystemResourceManager.c:"
F = [S + f for f in ("svt_system_resource_ctor", "svt_get_empty_object", "svt_post_full_object", "svt_get_full_object",
                     "svt_get_full_object_non_blocking", "svt_release_object", "svt_object_inc_live_count", "svt_shutdown_process",
                     "svt_muxing_queue_assignation", "svt_release_process")]
META = {
    "engine": "E5 step scheduler (blocking calls split at their semaphore wait)",
    "level_text": "One query additionally splits svt_fifo_shutdown verbatim after its mutex release / semaphore post so that consumers run between the pieces of the shutdown. Bounded model checking of the real EbSystemResourceManager.c under an explicit scheduler: the two blocking calls are split verbatim at their semaphore wait into register/take halves, every other API call is one step (a single critical section); the scheduler (a solver variable per step) runs any enabled step of a producer, 1-2 consumers or the shutdown thread for K steps -- all interleavings at blocking-point granularity, with 1-2 objects, reference counts 0..2, blocking and polling gets; monitors for exclusivity, no loss/duplication, posting order, lost wake-up at quiescence, return-to-pool exactly at the last release, shutdown wake-up, and write-after-publication.",
    "level_note": "EbThreads.c is replaced by a model (held-flag mutex, counting semaphore). Critical sections are atomic steps: overlap of two critical sections that do not exclude each other (different mutexes) is outside, with the write-after-publication monitor as stand-in. Allocation failure is assumed away here (C16).",
    "technique": "CBMC bounded symbolic execution of the real SRM with a symbolic nested scheduler (thread choice and yield decisions are solver variables)",
    "assumptions": ["mutex/semaphore semantics as modelled in harness/common/threads_model.h", "constructor succeeds"],
    "outside": ["interleavings inside critical sections", "more than 2 objects / K steps", "more than one producer", "event traces of real encodes"],
    "stubs": ["EbThreads.c -> harness/common/threads_model.h"], "explanation": ""}
def mk(name, nobj, ncons, k, to=900):
    return Query(name=name, harness="C23/srm2.c", defines=["NOBJ=%d" % nobj, "NCONS=%d" % ncons, "K=%d" % k], gen=gen_split,
                 unwind=4, unwindset=["harness.0:%d" % (k + 1)], funcs=F, timeout=to, mem_gb=24,
                 bound="%d object(s), 1 producer, %d consumer(s), shutdown thread, %d scheduler steps (each step: any enabled half-operation of any thread), references 0..2, blocking and polling gets" % (nobj, ncons, k),
                 what="exclusive hand-out, no loss/duplication, posting order, no lost wake-up, release at last reference, shutdown wakes waiters, no write after publication")
def mk_sd(name, nobj, ncons, k, to=900):
    q = mk(name, nobj, ncons, k, to)
    q.defines = q.defines + ["SPLIT_SHUTDOWN=1"]
    q.bound += "; svt_fifo_shutdown split after its mutex release / semaphore post, each piece a scheduler step"
    q.what = "as above, with consumers running between the pieces of the shutdown: a woken consumer never finds an empty fifo without the shutdown flag"
    return q
def queries(tier):
    qs = [mk("srm_1obj_2cons_k6", 1, 2, 6, 1500), mk("srm_2obj_1cons_k6", 2, 1, 6, 1500), mk_sd("srm_1obj_1cons_k5_split_shutdown", 1, 1, 5, 1500)]
    if tier == "thorough":
        qs += [mk("srm_1obj_2cons_k7", 1, 2, 7, 3000), mk("srm_2obj_1cons_k7", 2, 1, 7, 3000)]
    return qs
