from vlib.core import Query
S = "Source/Lib/Common/Codec/EbSystemResourceManager.c:"
F = [S + f for f in ("svt_system_resource_ctor", "svt_get_empty_object", "svt_post_full_object", "svt_get_full_object",
                     "svt_get_full_object_non_blocking", "svt_release_object", "svt_object_inc_live_count", "svt_shutdown_process",
                     "svt_muxing_queue_assignation", "svt_release_process")]
META = {
    "engine": "E5 nested-yield scheduler",
    "level_text": "Bounded symbolic exploration of the real EbSystemResourceManager.c under a nested-yield scheduler: objects <=2, 1-2 producers, 1-2 consumers, a shutdown thread, <=5-6 operations with symbolic thread choice, symbolic yields at every mutex/semaphore operation of the real code (nesting depth 1 quick / 2 thorough); monitors for exclusivity, no loss/duplication, posting order, lost wake-up at quiescence, return-to-pool exactly at the last release, shutdown wake-up, and write-after-publication.",
    "level_note": "EbThreads.c is replaced by a model (held-flag mutex, counting semaphore). Only stack-nested interleavings at synchronisation granularity are explored (A..[B whole]..A); truly overlapping critical sections are outside, with the publication monitor as stand-in. Allocation failure is assumed away here (C16).",
    "technique": "CBMC bounded symbolic execution of the real SRM with a symbolic nested scheduler (thread choice and yield decisions are solver variables)",
    "assumptions": ["mutex/semaphore semantics as modelled in harness/common/threads_model.h", "constructor succeeds"],
    "outside": ["non-nested interleavings", "more than 2 objects / 6 operations", "event traces of real encodes"],
    "stubs": ["EbThreads.c -> harness/common/threads_model.h"], "explanation": ""}
def mk(name, nobj, nprod, ncons, nops, depth, to=900):
    return Query(name=name, harness="C23/srm.c", defines=["NOBJ=%d" % nobj, "NPROD=%d" % nprod, "NCONS=%d" % ncons, "NOPS=%d" % nops, "DEPTH=%d" % depth],
                 unwind=8, funcs=F, timeout=to,
                 bound="%d objects, %d producers, %d consumers, shutdown thread, %d operations, nesting depth %d" % (nobj, nprod, ncons, nops, depth),
                 what="exclusive hand-out, no loss/duplication, posting order, no lost wake-up, release at last reference, shutdown wakes waiters")
def queries(tier):
    qs = [mk("srm_1obj_1p_2c", 1, 1, 2, 5, 1), mk("srm_2obj_1p_1c", 2, 1, 1, 5, 1)]
    if tier == "thorough":
        qs += [mk("srm_2obj_1p_2c_d2", 2, 1, 2, 6, 2, 3000), mk("srm_1obj_1p_2c_d2", 1, 1, 2, 6, 2, 3000), mk("srm_2obj_2p_1c", 2, 2, 1, 6, 1, 3000)]
    return qs
