import os
from vlib.core import Query
from vlib import slicer
def gen(wd):
    pd = "Source/Lib/Encoder/Codec/EbPictureDecisionProcess.c"
    open(os.path.join(wd, "c22_skip.inc"), "w").write(slicer.functions(pd, ["get_relative_dist", "svt_av1_setup_skip_mode_allowed"]))
    pk = "Source/Lib/Encoder/Codec/EbPacketizationProcess.c"
    open(os.path.join(wd, "c22_tu.inc"), "w").write(slicer.functions(pk, ["get_reorder_queue_pos", "get_reorder_queue_entry", "count_frames_in_next_tu"]))
COPIES = {1: "Source/Lib/Common/Codec/EbInterPrediction.c:get_relative_dist_enc",
          2: "Source/Lib/Encoder/Codec/EbAdaptiveMotionVectorPrediction.c:get_relative_dist",
          3: "Source/Lib/Encoder/Codec/EbPictureDecisionProcess.c:get_relative_dist",
          4: "Source/Lib/Encoder/Codec/EbModeDecisionConfigurationProcess.c:get_relative_dist",
          5: "Source/Lib/Decoder/Codec/EbDecUtils.h:get_relative_dist"}
META = {
    "level_text": "Bounded symbolic check of each of the five order-hint distance helpers compiled from the real sources: for all order_hint_bits 1..8 and all in-range a,b the result is the signed distance modulo 2^bits and no undefined behaviour occurs. Queue wrap-around is covered by the packetization queries (see C03/C02).",
    "level_note": "Bounded: bits 1..8 (AV1 maximum), arguments in range as the callers mask them. Whole-stream behaviour past the wrap is not encoded; only the arithmetic that makes it correct is.",
    "assumptions": ["a,b in [0,2^bits) (order hints are masked when assigned)"],
    "outside": ["actually encoding thousands of frames", "decodability of long streams", "other users of the distance helpers (MFMV projection, reference scaling)"],
    "stubs": [], "explanation": "per-copy solver query over all (bits,a,b)"}
def queries(tier):
    qs = []
    for c, f in COPIES.items():
        qs.append(Query(name="reldist_copy%d" % c, harness="C22/rd_copy.c", defines=["COPY=%d" % c],
                        funcs=[f], bound="bits 1..8, all a,b in [0,2^bits), enable flag both ways",
                        what="relative distance == signed (a-b) mod 2^bits, in range, no UB", timeout=300))
    qs.append(Query(name="skip_mode_wrap", harness="C22/skipmode.c", gen=gen, unwind=9, timeout=900, backend="cadical",
                    funcs=["Source/Lib/Encoder/Codec/EbPictureDecisionProcess.c:svt_av1_setup_skip_mode_allowed", COPIES[3]],
                    bound="7 references at true distances -63..63, current picture at every residue of the 2^7 period (4 periods)",
                    what="skip-mode reference pair equals the spec selection on true distances at every position of the order-hint period"))
    qs.append(Query(name="tu_count_queue_wrap", harness="C22/tucount.c", gen=gen, unwind=10, timeout=600,
                    funcs=["Source/Lib/Encoder/Codec/EbPacketizationProcess.c:count_frames_in_next_tu", "Source/Lib/Encoder/Codec/EbPacketizationProcess.c:get_reorder_queue_entry"],
                    bound="queue depth macro scaled 2048 -> 8; every head position, every presence/shown pattern", what="temporal-unit frame count computed modulo the queue depth"))
    return qs
