from vlib.core import Query
COPIES = {1: "Source/Lib/Common/Codec/EbInterPrediction.c:get_relative_dist_enc",
          2: "Source/Lib/Encoder/Codec/EbAdaptiveMotionVectorPrediction.c:get_relative_dist",
          3: "Source/Lib/Encoder/Codec/EbPictureDecisionProcess.c:get_relative_dist",
          4: "Source/Lib/Encoder/Codec/EbModeDecisionConfigurationProcess.c:get_relative_dist",
          5: "Source/Lib/Decoder/Codec/EbDecUtils.h:get_relative_dist"}
META = {
    "level_text": "Bounded symbolic check of each of the five order-hint distance helpers compiled from the real sources: for all order_hint_bits 1..8 and all in-range a,b the result is the signed distance modulo 2^bits and no undefined behaviour occurs. Queue wrap-around is covered by the packetization queries (see C03/C02).",
    "level_note": "Bounded: bits 1..8 (AV1 maximum), arguments in range as the callers mask them. Whole-stream behaviour past the wrap is not encoded; only the arithmetic that makes it correct is.",
    "assumptions": ["a,b in [0,2^bits) (order hints are masked when assigned)"],
    "outside": ["actually encoding thousands of frames", "decodability of long streams"],
    "stubs": [], "explanation": "per-copy solver query over all (bits,a,b)"}
def queries(tier):
    qs = []
    for c, f in COPIES.items():
        qs.append(Query(name="reldist_copy%d" % c, harness="C22/rd_copy.c", defines=["COPY=%d" % c],
                        funcs=[f], bound="bits 1..8, all a,b in [0,2^bits), enable flag both ways",
                        what="relative distance == signed (a-b) mod 2^bits, in range, no UB", timeout=300))
    return qs
