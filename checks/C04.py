"""C04: determinism under thread interleaving -- mechanism-level queries (the whole pipeline cannot be encoded)."""
import os
from vlib.core import Query
from vlib import slicer
from checks import C24, C23
IRC = "Source/Lib/Encoder/Codec/EbInitialRateControlProcess.c"


RCP = "Source/Lib/Encoder/Codec/EbResourceCoordinationProcess.c"
THR = "Source/Lib/Common/Codec/EbThreads.c"


def gen_reset(wd):
    open(os.path.join(wd, "c04_reset.inc"), "w").write(slicer.functions(THR, ["atomic_set_u32", "svt_create_cond_var"]) + slicer.functions(RCP, ["reset_pcs_av1"]))


def gen(wd):
    open(os.path.join(wd, "c04_irc.inc"), "w").write(slicer.functions(IRC, ["determine_picture_offset_in_queue"]))


META = {
    "engine": "E5 symbolic scheduler / E3 self-composition",
    "level_text": "Four schedule-independence mechanisms of the pipeline, each decided on the real code for all schedules within its bound: (1) the EncDec segment hand-off (real assign_enc_dec_segments + sliced superblock walk) under every schedule of 3 workers: every superblock is coded exactly once, after its left/upper/upper-right neighbours, whatever the schedule (queries shared with C24); (2) the resource-manager FIFO (real EbSystemResourceManager.c under a step scheduler): objects reach a single consumer in posting order under every interleaving (query shared with C23); (3) the per-picture hand-shake state of a recycled PictureParentControlSet is reset by the real reset_pcs_av1 from arbitrary previous contents; (4) the initial-rate-control re-sequencing queue: the slot a picture gets and the queue state after two arrivals are identical for both arrival orders (2-safety query on the real determine_picture_offset_in_queue).",
    "level_note": "Byte-identical output of a whole encode under every interleaving of ~20 thread types is NOT decided: only these three hand-off mechanisms are. The picture-decision, picture-manager and packetization reorder loops, the TPL/ME readiness handshake and shared per-picture state are outside (the packetization window queries did not finish within budget, see C02).",
    "technique": "CBMC bounded symbolic execution with symbolic worker schedules (shared harnesses of C23/C24) and a self-composition query over two arrival orders",
    "assumptions": ["mutex/semaphore model harness/common/threads_model.h", "reorder-queue representation invariant: the head slot carries the next picture number to release"],
    "outside": ["whole-encode determinism", "reorder loops other than the IRC insertion", "termination of the whole pipeline"],
    "stubs": ["as in C23 / C24"], "explanation": ""}


def queries(tier):
    qs = [Query(name="irc_reorder_slot_order_independent_head%d" % h, harness="C04/irc_reorder.c", gen=gen, defines=["HEAD=%d" % h], unwind=8, timeout=600,
                funcs=[IRC + ":determine_picture_offset_in_queue"], bound="queue depth 2048, head index %d, arbitrary next picture number < 2^62, two different pictures at distances 0..4 from it, arbitrary stale slot contents" % h,
                what="slots and final queue contents identical for both arrival orders; no out-of-range slot") for h in (0, 2046)]
    qs.append(Query(name="recycled_pcs_handshake_state_reset", harness="C04/pcs_reset.c", gen=gen_reset, unwind=20, timeout=600,
                    funcs=[RCP + ":reset_pcs_av1", THR + ":svt_create_cond_var", THR + ":atomic_set_u32"], bound="arbitrary previous contents of the readiness flag, TPL counters and PA-ME flag",
                    what="a recycled picture control set enters the pipeline with every hand-shake field in its 'nothing announced' state"))
    c0 = C24.R(2, 1, 1, 2, 6); c0.name = "segment_handoff_" + c0.name
    qs.append(c0)
    a = C24.R(2, 2, 2, 2, 10); a.name = "segment_handoff_" + a.name
    b = C24.R(3, 2, 2, 2, 14); b.name = "segment_handoff_" + b.name
    qs += [a, b]
    if tier == "thorough":
        c = C23.mk("srm_2obj_1cons_k6", 2, 1, 6); c.name = "fifo_order_" + c.name
        qs.append(c)
    return qs
