import os, re
from vlib.core import Query
from vlib import layout
GEOM = re.compile(r"(_init_count(_child)?$|_segment_(row|col|column)_count(_array)?$|^tile_group_(row|col)_count_array$|^total_process_init_count$|^scd_delay$|^(tf|cdef|rest)_segment_)")
def gen(wd):
    leaves = layout.leaf_fields("EbSequenceControlSet.h", "SequenceControlSet", wd)
    assert len(leaves) > 150, "field extraction failed (%d)" % len(leaves)
    def small(t):
        # arrays larger than 16 elements (quantiser tables, prediction-structure arrays) are left out of the
        # snapshot: comparing them costs more than the rest together and nothing derives them from core counts
        import re as _re
        dims = [int(x) for x in _re.findall(r"\[(\d+)\]", t)]
        n = 1
        for d in dims: n *= d
        return n <= 16 and "struct" not in t.split("[")[0] or not dims
    # static_config.use_cpu_flags is masked with the detected CPU flags in the same function (C06's subject), not derived from core counts
    keep = [(n, t) for n, t in leaves if not GEOM.search(n.split(".")[-1]) and not GEOM.search(n) and small(t) and n != "static_config.use_cpu_flags"]
    geom = [n for n, t in leaves if (n, t) not in keep]
    with open(os.path.join(wd, "c05_snapshot.inc"), "w") as f, open(os.path.join(wd, "c05_compare.inc"), "w") as g:
        for i, (n, t) in enumerate(keep):
            f.write("    __typeof__(scs->%s) old_%d; memcpy(&old_%d, &scs->%s, sizeof(old_%d));\n" % (n, i, i, n, i))
            g.write('    V_ASSERT(memcmp(&old_%d, &scs->%s, sizeof(old_%d)) == 0, "%s is not touched by the core-count dependent buffer configuration");\n' % (i, n, i, n))
    with open(os.path.join(wd, "c05_geometry_fields.txt"), "w") as f:
        f.write("\n".join(geom))
RP = "Source/Lib/Encoder/Codec/EbRestProcess.c"
def gen_rest(wd):
    from vlib import slicer
    A = "        EB_GET_FULL_OBJECT(context_ptr->rest_input_fifo_ptr, &cdef_results_wrapper_ptr);\n"
    B = "                                   cdef_results_ptr->segment_index);\n"
    blk = slicer.between(RP, A, B, True)
    if blk.count("{") - blk.count("}") != 1:
        raise RuntimeError("rest_kernel head slice is not the expected single open block")
    open(os.path.join(wd, "c05_rest_head.inc"), "w").write(
        "/* sliced verbatim from rest_kernel (task fetch .. restoration_seg_search) */\nstatic void rest_task_head(RestContext *context_ptr) {\n"
        "    PictureControlSet *pcs_ptr; SequenceControlSet *scs_ptr; EbObjectWrapper *cdef_results_wrapper_ptr; CdefResults *cdef_results_ptr;\n" + blk + "        }\n}\n")
H = "Source/Lib/Encoder/Globals/EbEncHandle.c:"
META = {
    "engine": "E3 frame condition",
    "level_text": "Frame-condition query on the real load_default_buffer_configuration_settings and set_parent_pcs: from an ARBITRARY sequence control set, for every logical-processor count 1..512, socket/pinning setting, resolution class and the relevant configuration fields, every field that is not parallel geometry (name-pattern list, regenerated from the header) is bit-identical before and after the call -- so nothing the encoder codes with can depend on the core count through this function.",
    "level_note": "Additionally the head of rest_kernel (sliced; callees replaced by monitors) is checked for carrying no worker-private reconstruction copy from one task to the next. Decides the mechanism named by the property (the function that turns core counts into geometry). That segment grids themselves do not change coded output is C24's neighbour-availability result; kernels that read geometry to choose coding behaviour are outside (one such read, EbEncDecProcess.c pic_based_rate_est with a 1x1 segment grid, is noted in DESIGN.md).",
    "technique": "CBMC frame-condition check with field list from clang record layout",
    "assumptions": ["sysconf returns 1..512", "geometry fields are those matching the name patterns listed in checks/C05.py", "arrays of more than 16 elements are not part of the compared field set"],
    "outside": ["byte-identical output across core counts end to end"],
    "stubs": ["sysconf", "derive_input_resolution", "get_cpu_flags(_to_use)"], "explanation": ""}
def queries(tier):
    return [Query(name="only_geometry_written", harness="C05/geometry.c", gen=gen, unwind=140, flags=["--object-bits", "12"], funcs=[H + "load_default_buffer_configuration_settings", H + "set_parent_pcs"], timeout=1200, mem_gb=24,
                  bound="arbitrary prior scs; logical processors 0..512 requested, 1..512 present, 1..2 groups, all resolution classes", what="no non-geometry field of the sequence control set is modified"),
            Query(name="core_count_clamped", harness="C05/clamp.c", unwind=4, funcs=[H + "set_parent_pcs"], timeout=300,
                  bound="all core counts, frame rates, hierarchical levels 0..5, resolution classes", what="picture-buffer count is positive and bounded for every core count"),
            Query(name="rest_worker_scratch_refreshed_per_task", harness="C05/rest_scratch.c", gen=gen_rest, unwind=4, timeout=600, funcs=[RP + ":rest_kernel (task head, sliced; callees are monitors)"],
                  bound="arbitrary task (picture, segment index), restoration on/off, intrabc, bit depth; worker previously idle / on this picture / on another picture",
                  what="the restoration worker's private reconstruction copy is refreshed for the current picture before every segment search, whatever the worker processed before")]
