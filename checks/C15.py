import os, re
from vlib.core import Query
from vlib import slicer
from checks import C16
EH = "Source/Lib/Encoder/Globals/EbEncHandle.c"
def gen_threads(wd):
    src = slicer.read(EH)
    init = slicer.function(src, "svt_av1_enc_init")
    stmts = re.findall(r"EB_CREATE_THREAD(?:_ARRAY)?\s*\((?:[^()]|\([^()]*\))*\)\s*;", init, re.S)
    if len(stmts) < 10:
        raise RuntimeError("only %d thread-creation statements found in svt_av1_enc_init" % len(stmts))
    body = ""
    for i, st in enumerate(stmts):
        if st.startswith("EB_CREATE_THREAD_ARRAY"):
            # give each array its own backing store: the model macro assigns `pa = arr_<line>`
            body += "    { EbHandle *arr___LINE__ = pools[%d]; %s }\n" % (i, st.replace("\n", " "))
        else:
            body += "    %s\n" % st.replace("\n", " ")
    body = body.replace("arr___LINE__", "arr_0")
    out = "#undef EB_CREATE_THREAD_ARRAY\n#define EB_CREATE_THREAD_ARRAY(pa, count, fn, ctxs) do { pa = arr_0; for (uint32_t i_ = 0; i_ < (count); i_++) { (pa)[i_] = (EbHandle)&thread_tokens[1]; live_threads++; created_threads++; } } while (0)\n"
    out += "/* thread-creation statements of svt_av1_enc_init, verbatim */\nstatic void create_threads(EbEncHandle *enc_handle_ptr, SequenceControlSet *control_set_ptr) {\n" + body + "}\n"
    out += slicer.function(src, "svt_enc_handle_stop_threads")
    open(os.path.join(wd, "c15_threads.inc"), "w").write(out)
META = {
    "level_text": "The real constructor/destructor pairs (EB_NEW / EB_DELETE protocol) of the listed objects run symbolically without failures; assertions: every allocation, mutex and semaphore created by the constructor is released by the destructor chain (live counters return to zero), no invalid or double free (CBMC pointer checks), destructor fields hold the type's own destructor. Teardown after a FAILED construction is C16.",
    "level_note": "Decoder side: the library memory map (real svt_dec_handle_ctor, EB_MALLOC_DEC registrations, svt_av1_dec_deinit, svt_dec_component_de_init) after 0/1/2 allocations and after the sliced multi-thread resource set-up of dec_system_resource_init, with CBMC free()/leak checks. Encoder side, object-graph level only: encode_dec segments, the system resource manager (pool, muxing queues, fifos, wrappers), picture buffer descriptors, output bitstream units, with small symbolic sizes. Thread exit, mid-stream teardown of a running pipeline and memory growth over repeated sessions are outside (no whole-encoder run is encodable).",
    "technique": "CBMC bounded symbolic execution of real ctor+dctor chains with allocation/OS-object live counters",
    "assumptions": ["EbThreads.c replaced by harness/common/threads_model.h", "allocation succeeds (failures: C16)"],
    "outside": ["svt_av1_enc_deinit on a running encoder", "decoder memory map walk"],
    "stubs": ["svt_print_alloc_fail (empty)"], "explanation": ""}
DH = "Source/Lib/Decoder/Codec/EbDecHandle.c"


def gen_dec(wd):
    import os, re
    from vlib import slicer
    src = slicer.read(DH)
    g = re.findall(r"^(?:EbMemoryMapEntry \*|uint32_t \* *|uint64_t \* *|uint32_t +)(?:svt_dec_memory_map|svt_dec_memory_map_index|svt_dec_total_lib_memory|svt_dec_lib_malloc_count|memory_map_start_address|memory_map_end_address)[^;]*;", src, re.M)
    if len(g) < 6:
        raise RuntimeError("decoder memory-map globals not found (%d)" % len(g))
    open(os.path.join(wd, "c15_dec.inc"), "w").write("/* file-scope definitions and functions sliced verbatim from EbDecHandle.c */\n" + "\n".join(g) + "\n" +
        slicer.functions(DH, ["svt_dec_handle_ctor", "svt_av1_dec_deinit", "svt_dec_component_de_init"]))


DP = "Source/Lib/Decoder/Codec/EbDecProcess.c"


def gen_dec_mt(wd):
    import os
    from vlib import slicer
    gen_dec(wd)
    A = "    DecModCtxt **dec_mod_ctxt_arr;\n"
    src = slicer.read(DP)
    f = slicer.function(src, "dec_system_resource_init")
    i = f.find("    /* Decode Library Threads */")
    if i < 0:
        raise RuntimeError("anchor not found in dec_system_resource_init")
    tail = f[i:]
    open(os.path.join(wd, "c15_dec_mt.inc"), "w").write(
        "/* tail of dec_system_resource_init (EbDecProcess.c), verbatim */\nstatic EbErrorType mt_resources_tail(EbDecHandle *dec_handle_ptr, DecMtFrameData *dec_mt_frame_data) {\n    EbErrorType return_error = EB_ErrorNone;\n" + tail + "\n")


def queries(tier):
    qs = C16.queries(tier, fail=0, prefix="nofail_")
    qs.append(Query(name="threads_created_are_joined", harness="C15/threads.c", gen=gen_threads, unwind=6, timeout=600,
                    funcs=[EH + ":svt_av1_enc_init (thread creation statements, extracted)", EH + ":svt_enc_handle_stop_threads"],
                    bound="every per-stage process count 0..3 independently", what="teardown joins exactly the threads init created"))
    qs.append(Query(name="decoder_mt_resources_teardown", harness="C15/dec_mt_teardown.c", gen=gen_dec_mt, unwind=16, timeout=600, flags=["--slice-formula"],
                    checks=["--unwinding-assertions", "--signed-overflow-check", "--undefined-shift-check", "--div-by-zero-check", "--bounds-check", "--pointer-check", "--memory-leak-check", "--drop-unused-functions", "--no-malloc-may-fail", "--trace"],
                    funcs=[DP + ":dec_system_resource_init (thread-resource tail, sliced)", DH + ":svt_av1_dec_deinit", "Source/Lib/Decoder/Codec/EbDecMemInit.h:EB_MALLOC_DEC"],
                    bound="2..3 decoder threads, first or repeated resource initialisation, stub thread/semaphore creation", what="every library allocation of the multi-thread resource set-up is released exactly once by deinit (no double free)"))
    for k in (0, 1, 2):
        qs.append(Query(name="decoder_teardown_after_%d_allocations" % k, harness="C15/dec_teardown.c", gen=gen_dec, defines=["K=%d" % k], unwind=6, timeout=600,
                        checks=["--unwinding-assertions", "--signed-overflow-check", "--undefined-shift-check", "--div-by-zero-check", "--bounds-check", "--pointer-check", "--memory-leak-check", "--drop-unused-functions", "--no-malloc-may-fail", "--trace"],
                        funcs=[DH + ":svt_dec_handle_ctor", DH + ":svt_av1_dec_deinit", DH + ":svt_dec_component_de_init", "Source/Lib/Decoder/Codec/EbDecMemInit.h:EB_MALLOC_DEC"],
                        bound="%d library allocation(s) between handle creation and deinit%s; arbitrary heap contents" % (k, " (deinit right after svt_av1_dec_init_handle)" if k == 0 else ""),
                        what="decoder teardown frees exactly what was allocated: no invalid or double free, no leak"))
    return qs
