import os, re
from vlib.core import Query
from vlib import slicer
from checks import C16
EH = "Source/Lib/Encoder/Globals/EbEncHandle.c"
def gen_threads(wd):
    src = slicer.read(EH)
    init = slicer.function(src, "svt_av1_enc_init")
    stmts = re.findall(r"EB_CREATE_THREAD(?:_ARRAY)?\s*\((?:[^()]|\([^()]*\))*\)\s*;", init, re.S)
    if len(stmts) < 10:
        raise RuntimeError("only %d thread-creation statements found in svt_av1_enc_init" % len(stmts))
    body = ""
    for i, st in enumerate(stmts):
        if st.startswith("EB_CREATE_THREAD_ARRAY"):
            # give each array its own backing store: the model macro assigns `pa = arr_<line>`
            body += "    { EbHandle *arr___LINE__ = pools[%d]; %s }\n" % (i, st.replace("\n", " "))
        else:
            body += "    %s\n" % st.replace("\n", " ")
    body = body.replace("arr___LINE__", "arr_0")
    out = "#undef EB_CREATE_THREAD_ARRAY\n#define EB_CREATE_THREAD_ARRAY(pa, count, fn, ctxs) do { pa = arr_0; for (uint32_t i_ = 0; i_ < (count); i_++) { (pa)[i_] = (EbHandle)&thread_tokens[1]; live_threads++; created_threads++; } } while (0)\n"
    out += "/* thread-creation statements of svt_av1_enc_init, verbatim */\nstatic void create_threads(EbEncHandle *enc_handle_ptr, SequenceControlSet *control_set_ptr) {\n" + body + "}\n"
    out += slicer.function(src, "svt_enc_handle_stop_threads")
    open(os.path.join(wd, "c15_threads.inc"), "w").write(out)
META = {
    "level_text": "The real constructor/destructor pairs (EB_NEW / EB_DELETE protocol) of the listed objects run symbolically without failures; assertions: every allocation, mutex and semaphore created by the constructor is released by the destructor chain (live counters return to zero), no invalid or double free (CBMC pointer checks), destructor fields hold the type's own destructor. Teardown after a FAILED construction is C16.",
    "level_note": "Object-graph level only: encode_dec segments, the system resource manager (pool, muxing queues, fifos, wrappers), picture buffer descriptors, output bitstream units, with small symbolic sizes. Thread exit, mid-stream teardown of a running pipeline and memory growth over repeated sessions are outside (no whole-encoder run is encodable).",
    "technique": "CBMC bounded symbolic execution of real ctor+dctor chains with allocation/OS-object live counters",
    "assumptions": ["EbThreads.c replaced by harness/common/threads_model.h", "allocation succeeds (failures: C16)"],
    "outside": ["svt_av1_enc_deinit on a running encoder", "decoder memory map walk"],
    "stubs": ["svt_print_alloc_fail (empty)"], "explanation": ""}
def queries(tier):
    qs = C16.queries(tier, fail=0, prefix="nofail_")
    qs.append(Query(name="threads_created_are_joined", harness="C15/threads.c", gen=gen_threads, unwind=6, timeout=600,
                    funcs=[EH + ":svt_av1_enc_init (thread creation statements, extracted)", EH + ":svt_enc_handle_stop_threads"],
                    bound="every per-stage process count 0..3 independently", what="teardown joins exactly the threads init created"))
    return qs
