from vlib.core import Query
from checks import C16
META = {
    "level_text": "The real constructor/destructor pairs (EB_NEW / EB_DELETE protocol) of the listed objects run symbolically without failures; assertions: every allocation, mutex and semaphore created by the constructor is released by the destructor chain (live counters return to zero), no invalid or double free (CBMC pointer checks), destructor fields hold the type's own destructor. Teardown after a FAILED construction is C16.",
    "level_note": "Object-graph level only: encode_dec segments, the system resource manager (pool, muxing queues, fifos, wrappers), picture buffer descriptors, output bitstream units, with small symbolic sizes. Thread exit, mid-stream teardown of a running pipeline and memory growth over repeated sessions are outside (no whole-encoder run is encodable).",
    "technique": "CBMC bounded symbolic execution of real ctor+dctor chains with allocation/OS-object live counters",
    "assumptions": ["EbThreads.c replaced by harness/common/threads_model.h", "allocation succeeds (failures: C16)"],
    "outside": ["svt_av1_enc_deinit on a running encoder", "decoder memory map walk"],
    "stubs": ["svt_print_alloc_fail (empty)"], "explanation": ""}
def queries(tier):
    return C16.queries(tier, fail=0, prefix="nofail_")
