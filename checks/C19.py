import os, re
from vlib.core import Query, REPO
def gen(wd):
    src = open(os.path.join(REPO, "Source/Lib/Encoder/Codec/EbPictureDecisionProcess.c")).read()
    a = "                // If the Intra period length is 0, then introduce an intra for every picture"
    b = "                // Determine if Pictures can be released from the Pre-Assignment Buffer"
    if src.count(a) != 1 or src.count(b) != 1:
        raise RuntimeError("anchors of the intra-refresh block in picture_decision_kernel not found exactly once")
    blk = src[src.index(a):src.index(b)]
    if blk.count("{") != blk.count("}"):
        raise RuntimeError("sliced block not brace-balanced")
    m = re.search(r"^EbBool is_delayed_intra\(.*?^}\n", src, re.S | re.M)
    if not m:
        raise RuntimeError("is_delayed_intra not found")
    with open(os.path.join(wd, "c19_step.inc"), "w") as f:
        f.write("/* sliced verbatim from EbPictureDecisionProcess.c */\n"
                "static void intra_step(SequenceControlSet *scs_ptr, EncodeContext *encode_context_ptr, PictureParentControlSet *pcs_ptr) {\n" + blk + "\n}\n" + m.group(0))
D = "Source/Lib/Encoder/Codec/EbPictureDecisionProcess.c:"
META = {
    "level_text": "Inductive step over the real intra-refresh statements of picture_decision_kernel (sliced verbatim, regenerated every run) from an ARBITRARY display position k>=1 (represented by its residue modulo P+1) and every intra period -1..2^30, both refresh types, all rate-control modes: with the position invariant assumed before the picture, the picture is flagged intra exactly when k is a multiple of P+1 and the invariant holds again afterwards -- which covers streams of any length. Plus is_delayed_intra for all flag combinations (the stream's last picture is never held back).",
    "level_note": "Base case (picture 0 is intra and leaves position 0) is by reading (I_SLICE branch resets the position for picture_number 0). Scene-change detection off. That key frames are random-access points is decided only at header level (sequence header precedes every key frame: C02 queries). Pixel-exact equality of suffix decodes is outside.",
    "technique": "CBMC inductive step on a verbatim source slice (arbitrary picture number, arbitrary period)",
    "assumptions": ["cra_flag/idr_flag reset to 0 per picture before the block (resource coordination)", "scene_change_flag == 0"],
    "outside": ["decoding from a key-frame cut point", "overlay / alt-ref interplay"],
    "stubs": [], "explanation": ""}
def queries(tier):
    return [Query(name="intra_period_step", harness="C19/intra.c", entry="step", gen=gen, unwind=4, funcs=[D + "picture_decision_kernel (intra refresh block, sliced)"], timeout=900,
                  bound="one picture at an arbitrary position k>=1 (represented by k mod (P+1)), intra period -1..2^30, refresh type 1/2, rate-control mode 0..2", what="intra exactly at multiples of P+1; position invariant inductive"),
            Query(name="delayed_intra", harness="C19/intra.c", entry="delayed", gen=gen, unwind=4, funcs=[D + "is_delayed_intra"], timeout=600,
                  bound="all flag combinations, buffer counts 1..32", what="end-of-sequence / non-intra / all-intra pictures are never delayed")]
