import os
from vlib.core import Query
from vlib import slicer
from checks import C21
H = "Source/Lib/Encoder/Globals/EbEncHandle.c:"
def gen_ring(wd):
    blk = slicer.between("Source/Lib/Encoder/Codec/firstpass.c", "    twopass->stats_buf_ctx->stats_in_end++;", "\n}\n")
    if blk.count("{") != blk.count("}"):
        raise RuntimeError("ring tail not brace-balanced")
    open(os.path.join(wd, "c11_ring.inc"), "w").write("/* tail of update_firstpass_stats (firstpass.c), verbatim */\nstatic void advance_stats_ring(SequenceControlSet *scs_ptr, TWO_PASS *twopass) {\n" + blk + "\n}\n")
META = {
    "level_text": "Leaf-level memory-safety / arithmetic checks of the functions the property's anchors name, each over ALL inputs of its domain: picture-size geometry (set_param_based_on_input after real validation, every accepted width x height), the deep copy of the caller's picture into the padded library buffer (copy_frame_buffer with exact-size caller planes, shared with C21), the first-pass statistics ring (inductive step).",
    "level_note": "A full encode from init to teardown cannot be encoded; what is decided is that these leaf computations are free of out-of-bounds access and undefined arithmetic for every accepted size. The fixed 2-3 MB per-picture bitstream buffer is NOT shown to bound the coded size (no such bound exists in the code; noted in DESIGN.md).",
    "technique": "CBMC bounded symbolic execution of real leaf functions over their full input domain",
    "assumptions": ["4:2:0"], "outside": ["the encode itself", "time bounds", "error packets"],
    "stubs": ["derive_input_resolution (arbitrary class)"], "explanation": ""}
def queries(tier):
    qs = [Query(name="input_geometry_all_sizes", harness="C11/geom.c", unwind=34, funcs=[H + "set_param_based_on_input", H + "verify_settings", H + "copy_api_from_app"], timeout=900, mem_gb=24,
                bound="every width x height accepted by validation, presets 0..8, 8/10 bit", what="padding, padded sizes, chroma sizes, margins consistent; no 16-bit wrap"),
          Query(name="firstpass_stats_ring_step", harness="C11/ring.c", gen=gen_ring, unwind=4, funcs=["Source/Lib/Encoder/Codec/firstpass.c:update_firstpass_stats (ring advance, sliced)"], timeout=600,
                bound="ring sizes 1..8, every write position (inductive step)", what="statistics write pointer stays inside its ring")]
    c = C21.q(8, 16, 6); c.name = "copy_frame_buffer_" + c.name
    c.what = "copy of the caller's picture reads only the caller's planes and writes only the library buffer"
    qs.append(c)
    return qs
