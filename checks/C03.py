import os
from vlib.core import Query
from vlib import slicer
PK = "Source/Lib/Encoder/Codec/EbPacketizationProcess.c"
def gen(wd):
    fns = slicer.functions(PK, ["pop_undisplayed_frame", "copy_data_from_bitstream", "encode_show_existing", "clear_eos_flag", "set_eos_flag"])
    blk = slicer.between(PK, "            EbBool eos                = output_stream_ptr->flags &  EB_BUFFERFLAG_EOS;", "            release_frames(encode_context_ptr, frames);", include_b=True)
    if blk.count("{") != blk.count("}"):
        raise RuntimeError("sliced drain tail not brace-balanced")
    fns2 = slicer.functions(PK, ["get_reorder_queue_pos", "get_reorder_queue_entry", "collect_frames_info"])
    open(os.path.join(wd, "c03_collect.inc"), "w").write("typedef struct PacketizationContext PacketizationContext;\n" + fns2)
    open(os.path.join(wd, "c03_eos.inc"), "w").write(
        fns + "\n/* tail of the queue-drain loop body of packetization_kernel, verbatim */\n"
        "static void tail_of_drain(void *context_ptr, EncodeContext *encode_context_ptr, PacketizationReorderEntry *queue_entry_ptr, int frames, uint32_t total_bytes) {\n"
        "    (void)context_ptr; EbObjectWrapper *output_stream_wrapper_ptr = queue_entry_ptr->output_stream_wrapper_ptr;\n"
        "    EbBufferHeaderType *output_stream_ptr = (EbBufferHeaderType *)output_stream_wrapper_ptr->object_ptr;\n" + blk + "\n}\n")
F = [PK + ":" + n for n in ("packetization_kernel (EOS handling of the queue-drain loop, sliced)", "encode_show_existing", "copy_data_from_bitstream", "pop_undisplayed_frame", "set_eos_flag", "clear_eos_flag")]
META = {
    "level_text": "The EOS handling of the packetization kernel's queue-drain loop (sliced verbatim) with the real encode_show_existing / pop_undisplayed_frame / copy_data_from_bitstream: for every combination of 'stream ends here' and 'temporal unit is followed by a show-existing frame', exactly the last delivered packet carries EOS, the show-existing packet has the right flags, bytes and pts. Packet order/pts/one-packet-per-picture across arrival orders is in the thorough tier (drain queries of C02).",
    "level_note": "Mechanism-level: the N-pictures-in, N-packets-out statement for whole streams (look-ahead, TPL, overlays across kernels) cannot be encoded. Known finding: the packet's p_app_private is not the submitted picture's pointer (see known_findings.txt).",
    "technique": "CBMC on a verbatim source slice plus real helper functions, symbolic flags",
    "assumptions": ["encode_tu preserves flags other than HAS_TD (its byte assembly is checked by the drain queries)"],
    "outside": ["whole-stream packet counts", "recon output count"],
    "stubs": ["encode_tu (flag effect only)", "release_frames", "svt_post_full_object (records packets)"], "explanation": ""}
def queries(tier):
    return [Query(name="eos_placement", harness="C03/eos.c", gen=gen, unwind=6, funcs=F, timeout=600,
                  bound="one temporal unit: EOS on/off x show-existing on/off x alt-ref flag on/off", what="EOS on exactly the last packet; show-existing packet well formed"),
            Query(name="private_pointer_carried", harness="C03/priv.c", gen=gen, unwind=6, funcs=[PK + ":collect_frames_info", PK + ":get_reorder_queue_entry"], timeout=600,
                  bound="one temporal unit of 1..2 frames, arbitrary private pointers and metadata lists", what="the packet carries the application-private pointer of the picture it displays")]
