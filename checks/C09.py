"""C09: multi-threaded decoding -- one mechanism-level query (the CDEF row wavefront); everything else of the property is outside."""
import os, re
from vlib.core import Query
from vlib import slicer
CD = "Source/Lib/Decoder/Codec/EbDecCdef.c"


def gen(wd):
    src = slicer.read(CD)
    f = slicer.function(src, "svt_cdef_sb_row_mt")
    a = f.find("        /* Top-Right Sync*/")
    b = f.find("            //Sleep(5);", a)
    if a < 0 or b < 0:
        raise RuntimeError("Top-Right Sync block not found in svt_cdef_sb_row_mt")
    blk = f[a:b]
    blk2, n = re.subn(r"while \((\*cdef_completed_in_prev_row[^;]*?)\)\s*;", r"if (\1) return 0; /* spin-wait of the original turned into a test */", blk, flags=re.S)
    if n != 1:
        raise RuntimeError("spin-wait of the Top-Right Sync block not recognised")
    blk2 += "\n        }\n"    # closes `if (sb_fbr) {`
    m = re.search(r"^\s*\*cdef_completed_in_row = [^;]*;", f, re.M)
    if not m:
        raise RuntimeError("completion-counter update not found")
    with open(os.path.join(wd, "c09_cdef_sync.inc"), "w") as o:
        o.write("/* sliced verbatim from svt_cdef_sb_row_mt (EbDecCdef.c) */\n"
                "static int cdef_sync_try(int32_t sb_fbr, int32_t sb_fbc, int32_t pic_width_in_sb, uint32_t *nsync_p, volatile uint32_t *cdef_completed_in_prev_row) {\n"
                "    uint32_t nsync = *nsync_p;\n" + blk2 + "    *nsync_p = nsync;\n    return 1;\n}\n"
                "static void cdef_mark_done(int32_t sb_fbc, uint32_t *cdef_completed_in_row) {\n" + m.group(0) + "\n}\n")


PF = "Source/Lib/Decoder/Codec/EbDecProcessFrame.c"


def gen_recon(wd):
    src = slicer.read(PF)
    f = slicer.function(src, "decode_tile_row")
    a = f.find("        /* Top-Right Sync*/")
    b = f.find("            //Sleep(5);", a)
    if a < 0 or b < 0:
        raise RuntimeError("Top-Right Sync block not found in decode_tile_row")
    blk, n = re.subn(r"while \((\*sb_completed_in_prev_row[^;]*?)\)\s*;", r"if (\1) return 0; /* spin-wait of the original turned into a test */", f[a:b], flags=re.S)
    if n != 1:
        raise RuntimeError("spin-wait of decode_tile_row not recognised")
    m = re.search(r"^\s*\*sb_completed_in_row = [^;]*;", f, re.M)
    if not m:
        raise RuntimeError("completion update of decode_tile_row not found")
    body = slicer._strip_comments_keep_len(f)
    mw = re.search(r"^\s*tile_wd_in_sb\s*=[^;]*;", body, re.M)
    if not mw:
        raise RuntimeError("tile width statement of decode_tile_row not found")
    wd_stmt = f[mw.start():mw.end()]
    with open(os.path.join(wd, "c09_recon_sync.inc"), "w") as o:
        o.write("#ifdef EDGE\n/* the tile-width statement of decode_tile_row, sliced verbatim */\n"
                "static int32_t recon_tile_wd(DecModCtxt *dec_mod_ctxt, TilesInfo *tile_info, int32_t tile_col, EbDecHandle *dec_handle_ptr, int32_t sb_mi_size_log2) {\n    int32_t tile_wd_in_sb; (void)dec_mod_ctxt; (void)tile_info; (void)tile_col; (void)dec_handle_ptr; (void)sb_mi_size_log2;\n"
                + wd_stmt + "\n    return tile_wd_in_sb;\n}\n#endif\n")
        o.write("/* sliced verbatim from decode_tile_row (EbDecProcessFrame.c) */\n"
                "static int recon_sync_try(int32_t sb_row_in_tile, int32_t sb_col, int32_t tile_wd_in_sb, volatile int32_t *sb_completed_in_prev_row) {\n"
                + blk + "\n        }\n    return 1;\n}\n"
                "static void recon_mark_done(int32_t sb_col, uint32_t *sb_completed_in_row) {\n" + m.group(0) + "\n}\n")


LR = "Source/Lib/Decoder/Codec/EbDecRestoration.c"


def gen_lr(wd):
    src = slicer.read(LR)
    f = slicer.function(src, "dec_av1_loop_restoration_filter_row")
    a = f.find("        /* Top-Right Sync*/")
    b = f.find("        int      sx = 0", a)
    if a < 0 or b < 0:
        raise RuntimeError("Top-Right Sync block not found in dec_av1_loop_restoration_filter_row")
    blk, n = re.subn(r"while \((\*sb_lr_completed_in_prev_row[^;]*?)\)\s*;", r"if (\1) return 0; /* spin-wait of the original turned into a test */", f[a:b], flags=re.S)
    if n != 1:
        raise RuntimeError("spin-wait of the LR row function not recognised")
    m = re.search(r"^\s*\*sb_lr_completed_in_row = [^;]*;", f, re.M)
    if not m:
        raise RuntimeError("completion update of the LR row function not found")
    with open(os.path.join(wd, "c09_lr_sync.inc"), "w") as o:
        o.write("/* sliced verbatim from dec_av1_loop_restoration_filter_row (EbDecRestoration.c) */\n"
                "static int lr_sync_try(EbBool is_mt, int32_t sb_row, int col_y, int tile_w_y, int w_y, int sb_col_y, int32_t *nsync_p, volatile int32_t *sb_lr_completed_in_prev_row) {\n"
                "    int32_t nsync = *nsync_p;\n" + blk + "    *nsync_p = nsync;\n    return 1;\n}\n"
                "static void lr_mark_done(int sb_col_y, int32_t *sb_lr_completed_in_row) {\n" + m.group(0) + "\n}\n")


DPR = "Source/Lib/Decoder/Codec/EbDecProcess.c"


def gen_bdry(wd):
    open(os.path.join(wd, "c09_lr_bdry.inc"), "w").write(slicer.functions(DPR, ["dec_save_lf_boundary_lines_sb_row"]))


LFC = "Source/Lib/Decoder/Codec/EbDecLF.c"


def gen_lf(wd):
    src = slicer.read(LFC)
    f = slicer.function(src, "dec_loop_filter_row")
    a = f.find("        /* Top-Right Sync*/")
    b = f.find("        /*LF function for a SB*/", a)
    if a < 0 or b < 0:
        raise RuntimeError("Top-Right Sync block not found in dec_loop_filter_row")
    blk, n = re.subn(r"while \((\*sb_lf_completed_in_prev_row[^;]*?)\)\s*;", r"if (\1) return 0; /* spin-wait of the original turned into a test */", f[a:b], flags=re.S)
    if n != 1:
        raise RuntimeError("spin-wait of dec_loop_filter_row not recognised")
    m = re.search(r"^\s*\*sb_lf_completed_in_row = [^;]*;", f, re.M)
    if not m:
        raise RuntimeError("completion update of dec_loop_filter_row not found")
    with open(os.path.join(wd, "c09_lf_sync.inc"), "w") as o:
        o.write("/* sliced verbatim from dec_loop_filter_row (EbDecLF.c) */\n"
                "static int lf_sync_try(uint32_t y_sb_index, int32_t x_sb_index, int32_t pic_width_in_sb, volatile int32_t *sb_lf_completed_in_prev_row) {\n"
                + blk + "    return 1;\n}\n"
                "static void lf_mark_done(int32_t x_sb_index, int32_t *sb_lf_completed_in_row) {\n" + m.group(0) + "\n}\n")


def gen_lf_init(wd):
    A = "    DecMtlfFrameInfo *dec_mt_lf_frame_info = &dec_mt_frame_data1->lf_frame_info;\n"
    B = "    set_lbd_lf_filter_tap_functions();\n"
    blk = slicer.between(DPR, A, B)
    open(os.path.join(wd, "c09_lf_init.inc"), "w").write(
        "/* sliced verbatim from dec_av1_loop_filter_frame_mt (EbDecProcess.c) */\nstatic void lf_init_block(EbDecHandle *dec_handle, LfCtxt *lf_ctxt, DecMtFrameData *dec_mt_frame_data1, int32_t plane_start, int32_t plane_end) {\n"
        "    FrameHeader *frm_hdr = &dec_handle->frame_header;\n" + blk + "}\n")


def gen_lf_wait(wd):
    src = slicer.read(DPR)
    f = slicer.function(src, "dec_av1_loop_filter_frame_mt")
    a = f.find("            int32_t start_lf[")
    m = re.search(r"            while \(([^{]*?)\) \{\n(.*?)\n            \}\n", f[a:], re.S) if a >= 0 else None
    if a < 0 or not m:
        raise RuntimeError("reconstruction wait block not found in dec_av1_loop_filter_frame_mt")
    decls = f[a:a + m.start()]
    decls = re.sub(r"#if MT_WAIT_PROFILE.*?#endif\n", "", decls, flags=re.S)
    open(os.path.join(wd, "c09_lf_wait.inc"), "w").write(
        "/* sliced verbatim from dec_av1_loop_filter_frame_mt (EbDecProcess.c): declarations, one evaluation of the spin body, the spin condition */\n"
        "static int lf_stage_wait_over(int32_t sb_row, TilesInfo *tiles_info, DecMtFrameData *dec_mt_frame_data) {\n" + decls + "            {\n" + m.group(2) + "\n            }\n"
        "    return !(" + m.group(1) + ");\n}\n")


META = {
    "engine": "E5 symbolic scheduler",
    "level_text": "The reconstruction wavefront is also run with the tile width computed by the real statement of decode_tile_row on frames whose last superblock is partial. SEVEN mechanisms of the property: the hand-off from reconstruction to the loop-filter stage (every row the stage reads is complete when its wait ends), the once-per-frame loop-filter table initialisation (no thread filters before the tables are complete), the per-superblock-row saving of loop-restoration stripe context (every stripe of the frame covered), and the row-to-row synchronisation of the multi-threaded reconstruction stage (decode_tile_row), of the loop-filter stage (dec_loop_filter_row), of the CDEF stage (svt_cdef_sb_row_mt) and of the loop-restoration stage (dec_av1_loop_restoration_filter_row). Their synchronisation statements (sliced verbatim; the spin-wait is turned into a non-blocking test) run under every schedule of one worker per superblock row, for pictures 1..4 superblocks wide and 3 rows high: a superblock is filtered only after the superblocks above and above-right were filtered, and a row whose upper row is complete is never blocked.",
    "level_note": "Everything else the property states is NOT decided: tile parse / loop-filter / loop-restoration hand-offs, stage-to-stage hand-offs, data races in general, hangs of the whole pipeline, equality with single-thread output (the decoder's job bodies cannot be executed symbolically; see DESIGN.md). Teardown after multi-threaded decoding is decided under C15, the mode-info map bounds under C10.",
    "technique": "CBMC bounded symbolic execution with a symbolic row schedule over verbatim slices of the synchronisation statements",
    "assumptions": ["cdef_completed_in_row is zeroed at the start of the frame (memset in svt_av1_queue_cdef_jobs)", "one thread works on a row from left to right (get_sb_row_to_process hands out whole rows)"],
    "outside": ["all other stages and hand-offs of the multi-threaded decoder", "superblock 128 inner 64x64 ordering", "tiles"],
    "stubs": ["the CDEF filtering of a superblock is replaced by a monitor"], "explanation": ""}


def queries(tier):
    return [Query(name="cdef_row_sync_%dwide" % w, harness="C09/cdef_sync.c", gen=gen, defines=["PW=%d" % w, "PR=3"], unwind=3 * w + 3, timeout=600,
                  funcs=[CD + ":svt_cdef_sb_row_mt (Top-Right Sync block and completion update, sliced)"],
                  bound="picture %d superblock(s) wide, 3 superblock rows, every schedule of the three row workers" % w,
                  what="top and top-right superblocks are filtered before a superblock starts; no blocked row when its upper row is complete") for w in (1, 2, 3, 4)] + \
           [Query(name="recon_row_sync_%dwide" % w, harness="C09/recon_sync.c", gen=gen_recon, defines=["PW=%d" % w, "PR=3"], unwind=3 * w + 3, timeout=600,
                  funcs=[PF + ":decode_tile_row (Top-Right Sync block and completion update, sliced)"],
                  bound="tile %d superblock(s) wide, 3 superblock rows, every schedule of the three row workers" % w,
                  what="top and top-right superblocks are reconstructed before a superblock starts; no blocked row when its upper row is complete") for w in (1, 2, 3, 4)] + \
           [Query(name="recon_row_sync_%dwide_partial_last_superblock" % w, harness="C09/recon_sync.c", gen=gen_recon, defines=["PW=%d" % w, "PR=3", "EDGE=1"], unwind=3 * w + 3, timeout=900, flags=["--slice-formula", "--object-bits", "10"],
                  funcs=[PF + ":decode_tile_row (tile-width statement, Top-Right Sync block and completion update, sliced)"],
                  bound="tile %d superblock(s) wide whose right edge is the frame edge at any 4-sample position inside or at the end of the last superblock (superblock 64 or 128; tile end stored as the frame width or rounded up to the superblock), 3 superblock rows, every schedule of the three row workers" % w,
                  what="top and top-right superblocks are reconstructed before a superblock starts, also when the last superblock of the row is partial") for w in (2, 3)] + \
           [Query(name="lr_row_sync_%dwide" % w, harness="C09/lr_sync.c", gen=gen_lr, defines=["PW=%d" % w, "PR=3"], unwind=3 * w + 3, timeout=600,
                  funcs=[LR + ":dec_av1_loop_restoration_filter_row (Top-Right Sync block and completion update, sliced)"],
                  bound="every tile width needing %d processing unit(s) of 64 samples, 3 superblock rows, every schedule of the three row workers" % w,
                  what="top and top-right units are restored before a unit starts; no blocked row when its upper row is complete") for w in (1, 2, 3, 4)] + \
           [Query(name="lf_row_sync_%dwide" % w, harness="C09/lf_sync.c", gen=gen_lf, defines=["PW=%d" % w, "PR=3"], unwind=3 * w + 3, timeout=600,
                  funcs=[LFC + ":dec_loop_filter_row (Top-Right Sync block and completion update, sliced)"],
                  bound="picture %d superblock(s) wide, 3 superblock rows, every schedule of the three row workers" % w,
                  what="top and top-right superblocks are loop-filtered before a superblock starts; no blocked row when its upper row is complete") for w in (1, 2, 3, 4)] + \
           [Query(name="lf_tables_initialised_before_any_row", harness="C09/lf_init.c", gen=gen_lf_init, unwind=70, timeout=600, flags=["--slice-formula"],
                  funcs=[DPR + ":dec_av1_loop_filter_frame_mt (frame-level table initialisation block, sliced)"],
                  bound="two threads; the second may run its whole block at any mutex operation of the first or while the tables are being built",
                  what="no thread leaves the initialisation block before the frame's loop-filter tables are complete")] + \
           [Query(name="lf_stage_waits_for_all_rows_it_reads", harness="C09/lf_wait.c", gen=gen_lf_wait, unwind=20, timeout=600, flags=["--slice-formula"],
                  funcs=[DPR + ":dec_av1_loop_filter_frame_mt (reconstruction wait block, sliced)"],
                  bound="1..6 superblock rows, 1..3 tile columns, every state of the per-row reconstruction-complete map, every row R",
                  what="the wait ends only when rows R-2..R+1 are completely reconstructed in every tile column")] + \
           [Query(name="lr_stripe_context_saved_for_every_stripe", harness="C09/lr_bdry.c", gen=gen_bdry, unwind=10, timeout=600, flags=["--slice-formula"],
                  funcs=[DPR + ":dec_save_lf_boundary_lines_sb_row"], bound="every even frame height 16..384, superblock 64 and 128, luma plane",
                  what="the per-superblock-row saver of the multi-threaded pipeline saves the deblocked above/below context of every restoration stripe of the frame")]
