import os
from vlib.core import Query
from vlib import slicer
ED = "Source/Lib/Encoder/Codec/EbEncDecProcess.c"
PK = "Source/Lib/Encoder/Codec/EbPacketizationProcess.c"
def gen(wd):
    open(os.path.join(wd, "c26_psnr.inc"), "w").write(slicer.functions(ED, ["psnr_calculations"]))
    blk = slicer.between(PK, "        if (scs_ptr->static_config.stat_report) {\n", "        // Get Empty Rate Control Input Tasks")
    open(os.path.join(wd, "c26_copy.inc"), "w").write("/* sliced verbatim from packetization_kernel */\nstatic void copy_stats(SequenceControlSet *scs_ptr, PictureControlSet *pcs_ptr, EbBufferHeaderType *output_stream_ptr) {\n" + blk + "\n}\n")
META = {
    "level_text": "The real psnr_calculations (8-bit branch) on a small picture with every sample of source, saved source and reconstruction symbolic, symbolic origins/strides, reference and non-reference pictures, temporal filtering on/off: the three stored SSE values equal an independently written sum of squared differences over the VISIBLE samples (32-bit); plus the statistics copy of the packetization kernel (sliced): packet fields equal the picture's values iff statistics reporting is on.",
    "level_note": "'Picture decoded from the packet' is replaced by the encoder's own reconstruction (their equality is C01's subject, not claimed). The SSE-vs-specification queries (picture 6x4 visible in 8x8, ~15 min and 7 GB each) run in the thorough tier only; the quick tier checks the squaring macro and the statistics copy; 10-bit branch not covered.",
    "technique": "CBMC differential harness: real function vs. specification loop, all sample values symbolic",
    "assumptions": ["saved source planes have the geometry of the input picture", "squaring abstracted to an arbitrary function of the sample difference (its definition is checked by query sqr_macro_is_square)"],
    "outside": ["10-bit branch", "SSIM fields"],
    "stubs": [], "explanation": ""}
def queries(tier):
    vw, vh = 6, 4
    sse = [Query(name="sse_8bit_%dx%d_origin%d_%d_tf%d_ref%d" % (vw, vh, ox, oy, tf, ref), harness="C26/psnr.c", gen=gen, defines=["VW=%d" % vw, "VH=%d" % vh, "ORIGX=%d" % ox, "ORIGY=%d" % oy, "TF=%d" % tf, "ISREF=%d" % ref], unwind=520, funcs=[ED + ":psnr_calculations"], timeout=3000, mem_gb=24,
                  bound="visible %dx%d in a padded 8x8 picture, picture origin (%d,%d), temporal filtering %s, %s picture, all sample values of source, saved source and reconstruction" % (vw, vh, ox, oy, "on" if tf else "off", "reference" if ref else "non-reference"), what="SSE values exact over visible samples")
            for ox, oy, tf, ref in ((2, 2, 0, 0), (2, 2, 1, 1), (0, 4, 1, 0), (0, 4, 0, 1))]
    # measured this session: even a 4x2 / 2x4 visible area does not finish in 1500 s on a loaded machine, so no SSE-vs-specification query is in the quick tier
    # the SSE queries pass in 750-910 s / 7 GB each (measured); too slow for the per-change tier
    return (sse if tier == "thorough" else []) + [
            Query(name="sqr_macro_is_square", harness="C26/psnr.c", entry="sqr_macro", gen=gen, defines=["CHECK_SQR_MACRO=1"], unwind=520, funcs=["Source/Lib/Common/Codec/EbUtility.h:SQR"], timeout=600, bound="all differences -255..255", what="the squaring macro used by the statistic is x*x"),
            Query(name="stats_copied_iff_enabled", harness="C26/copy.c", gen=gen, unwind=4, funcs=[PK + ":packetization_kernel (statistics copy, sliced)"], timeout=600,
                  bound="all values of the three SSE fields, stat_report on/off", what="packet carries the picture's SSE values exactly when reporting is enabled, zeros otherwise")]
