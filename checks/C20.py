import os
from vlib.core import Query
from vlib import slicer
RC = "Source/Lib/Encoder/Codec/EbResourceCoordinationProcess.c"
PD = "Source/Lib/Encoder/Codec/EbPictureDecisionProcess.c"
EC = "Source/Lib/Encoder/Codec/EbEntropyCoding.c"
def gen(wd):
    open(os.path.join(wd, "c20_signals.inc"), "w").write(slicer.functions(RC, ["signal_derivation_pre_analysis_oq_scs"]) + slicer.functions(PD, ["signal_derivation_multi_processes_oq"]))
def gen_tiles(wd):
    open(os.path.join(wd, "c20_tiles.inc"), "w").write(slicer.functions(EC, ["svt_av1_get_tile_limits", "svt_av1_calculate_tile_cols", "svt_av1_calculate_tile_rows", "set_tile_info"]))
MD = "Source/Lib/Encoder/Codec/EbModeDecision.c"
def gen_cfl(wd):
    mac = slicer.between(MD, "#define INCRMENT_CAND_TOTAL_COUNT(cnt)", "MULTI_LINE_MACRO_END\n", True)
    open(os.path.join(wd, "c20_cfl.inc"), "w").write(mac + "\n" + slicer.functions(MD, ["inject_filter_intra_candidates", "inject_palette_candidates"]))
META = {
    "level_text": "One block-level tool is decided too: with chroma-from-luma configured off, the real candidate injectors inject_filter_intra_candidates and inject_palette_candidates never produce a candidate with the CfL chroma mode. The real signal-derivation functions that turn the configuration's tool switches into sequence-header and frame-level control fields, executed for EVERY combination of the switches (in their accepted ranges) and every picture state (preset 0..8, slice type, temporal layer, screen-content flag, resolution class): each tool the configuration turns off (loop filter, CDEF, loop restoration incl. self-guided/Wiener, palette, intra block copy, warped motion, intra edge filter) is off in the field the bitstream writer and mode decision read.",
    "level_note": "Gate-level only: that mode decision never *chooses* a disabled tool per block (OBMC, filter-intra, CfL of regular intra candidates, inter-intra, global motion, superres) and that the header writer copies these fields faithfully are not decided here; the per-picture tile layout computed by set_tile_info is decided (query tile_layout_as_requested); that write_tile_info_max_tile serialises it faithfully is not.",
    "technique": "CBMC on verbatim function slices, all switch values and picture states symbolic",
    "assumptions": ["switch values within the ranges verify_settings accepts"],
    "outside": ["block-level tool use other than the CfL chroma mode of filter-intra / palette candidates", "serialisation of the tile info", "superres"],
    "stubs": [], "explanation": ""}
def queries(tier):
    return [Query(name="disabled_tools_off", harness="C20/tools.c", gen=gen, unwind=8, funcs=[RC + ":signal_derivation_pre_analysis_oq_scs", PD + ":signal_derivation_multi_processes_oq"], timeout=900,
                  bound="all tool-switch values x presets 0..8 x slice types x temporal layers 0..5 x screen-content flag", what="configured-off tools are off in the derived control fields"),
            Query(name="sequence_level_switches", harness="C20/tools.c", gen=gen, unwind=8, defines=["SEQ_ONLY=1"], funcs=[RC + ":signal_derivation_pre_analysis_oq_scs"], timeout=900,
                  bound="all sequence-level switch values x presets", what="sequence-header tool flags are single bits that honour explicit on/off settings"),
            ] + [Query(name="cfl_off_no_cfl_candidates_paeth%d_pal%d" % (pa, np_), harness="C20/cfl.c", gen=gen_cfl, unwind=16, timeout=900, defines=["PAETH=%d" % pa, "NPAL=%d" % np_, "VIN_KEEP_ALL=1"], flags=["--slice-formula", "--object-bits", "10"],
                  funcs=[MD + ":inject_filter_intra_candidates", MD + ":inject_palette_candidates"],
                  bound="every block width/height 4..128, any block size enum / chroma transform size, chroma level 0..3, per-block CfL switch, disable_cfl_flag -1/0/1, paeth filter-intra %s, exactly %d palette(s) of any size from the (stubbed) palette search, any transform type from the (stubbed) av1_get_tx_type; inject_intra_candidates (regular intra) is outside" % ("on" if pa else "off", np_),
                  what="with chroma-from-luma configured off, no filter-intra or palette candidate carries the CfL chroma mode")
                  for pa, np_ in ((1, 2), (0, 1), (1, 0))] + [
            Query(name="tile_layout_as_requested", harness="C20/tiles.c", gen=gen_tiles, unwind=70, timeout=900,
                  funcs=[EC + ":set_tile_info", EC + ":svt_av1_get_tile_limits", EC + ":svt_av1_calculate_tile_cols", EC + ":svt_av1_calculate_tile_rows", "Source/Lib/Common/Codec/EbBlockStructures.h:tile_log2"],
                  bound="every frame size 64..4096 x 64..2160, superblock 64/128, tile_rows 0..6, tile_columns 0..4", what="signalled tile layout = requested layout limited only by the frame size; tile boundaries cover the frame")]
