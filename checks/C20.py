import os
from vlib.core import Query
from vlib import slicer
RC = "Source/Lib/Encoder/Codec/EbResourceCoordinationProcess.c"
PD = "Source/Lib/Encoder/Codec/EbPictureDecisionProcess.c"
EC = "Source/Lib/Encoder/Codec/EbEntropyCoding.c"
def gen(wd):
    open(os.path.join(wd, "c20_signals.inc"), "w").write(slicer.functions(RC, ["signal_derivation_pre_analysis_oq_scs"]) + slicer.functions(PD, ["signal_derivation_multi_processes_oq"]))
def gen_tiles(wd):
    open(os.path.join(wd, "c20_tiles.inc"), "w").write(slicer.functions(EC, ["svt_av1_get_tile_limits", "svt_av1_calculate_tile_cols", "svt_av1_calculate_tile_rows", "set_tile_info"]))
META = {
    "level_text": "The real signal-derivation functions that turn the configuration's tool switches into sequence-header and frame-level control fields, executed for EVERY combination of the switches (in their accepted ranges) and every picture state (preset 0..8, slice type, temporal layer, screen-content flag, resolution class): each tool the configuration turns off (loop filter, CDEF, loop restoration incl. self-guided/Wiener, palette, intra block copy, warped motion, intra edge filter) is off in the field the bitstream writer and mode decision read.",
    "level_note": "Gate-level only: that mode decision never *chooses* a disabled tool per block (OBMC, filter-intra, CfL, inter-intra, global motion, superres) and that the header writer copies these fields faithfully are not decided here; the per-picture tile layout computed by set_tile_info is decided (query tile_layout_as_requested); that write_tile_info_max_tile serialises it faithfully is not.",
    "technique": "CBMC on verbatim function slices, all switch values and picture states symbolic",
    "assumptions": ["switch values within the ranges verify_settings accepts"],
    "outside": ["block-level tool use", "serialisation of the tile info", "superres"],
    "stubs": [], "explanation": ""}
def queries(tier):
    return [Query(name="disabled_tools_off", harness="C20/tools.c", gen=gen, unwind=8, funcs=[RC + ":signal_derivation_pre_analysis_oq_scs", PD + ":signal_derivation_multi_processes_oq"], timeout=900,
                  bound="all tool-switch values x presets 0..8 x slice types x temporal layers 0..5 x screen-content flag", what="configured-off tools are off in the derived control fields"),
            Query(name="sequence_level_switches", harness="C20/tools.c", gen=gen, unwind=8, defines=["SEQ_ONLY=1"], funcs=[RC + ":signal_derivation_pre_analysis_oq_scs"], timeout=900,
                  bound="all sequence-level switch values x presets", what="sequence-header tool flags are single bits that honour explicit on/off settings"),
            Query(name="tile_layout_as_requested", harness="C20/tiles.c", gen=gen_tiles, unwind=70, timeout=900,
                  funcs=[EC + ":set_tile_info", EC + ":svt_av1_get_tile_limits", EC + ":svt_av1_calculate_tile_cols", EC + ":svt_av1_calculate_tile_rows", "Source/Lib/Common/Codec/EbBlockStructures.h:tile_log2"],
                  bound="every frame size 64..4096 x 64..2160, superblock 64/128, tile_rows 0..6, tile_columns 0..4", what="signalled tile layout = requested layout limited only by the frame size; tile boundaries cover the frame")]
