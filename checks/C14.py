import os
from vlib.core import Query
from vlib import layout
def gen_fill(wd):
    """Field-wise nondeterministic fill of EbSvtAv1EncConfiguration (byte-wise filling makes the SSA->SAT
    conversion quadratic). Regenerated from the header every run."""
    leaves = layout.leaf_fields("EbSvtAv1Enc.h", "EbSvtAv1EncConfiguration", wd)
    assert len(leaves) > 100
    with open(os.path.join(wd, "c14_fill.inc"), "w") as f:
        f.write("static void fill_config(EbSvtAv1EncConfiguration *c) {\n")
        for name, ty in leaves:
            if name == "pred_struct":
                f.write("    for (int i = 0; i < (int)(sizeof(c->pred_struct) / sizeof(c->pred_struct[0])); i++) {\n"
                        "        c->pred_struct[i].temporal_layer_index = vin32(); c->pred_struct[i].decode_order = vin32();\n"
                        "        for (int j = 0; j < REF_LIST_MAX_DEPTH; j++) { c->pred_struct[i].ref_list0[j] = vini32(); c->pred_struct[i].ref_list1[j] = vini32(); }\n    }\n")
            elif "*" in ty:
                f.write("    c->%s = vinbool() ? (void *)&v_some_buffer : NULL;\n" % name)
            elif "[" in ty:
                f.write("    for (unsigned i = 0; i < sizeof(c->%s) / sizeof(c->%s[0]); i++) c->%s[i] = (__typeof__(c->%s[0]))vin64();\n" % (name, name, name, name))
            else:
                f.write("    c->%s = (__typeof__(c->%s))vin64();\n" % (name, name))
        f.write("}\n")
H = "Source/Lib/Encoder/Globals/EbEncHandle.c:"
NULLQ = [
 ("n_init", "svt_av1_enc_init", "handle"), ("n_deinit", "svt_av1_enc_deinit", "handle"),
 ("n_init_handle", "svt_av1_enc_init_handle", "p_handle"), ("n_deinit_handle", "svt_av1_enc_deinit_handle", "handle"),
 ("n_setparam_h", "svt_av1_enc_set_parameter", "handle"), ("n_setparam_cfg", "svt_av1_enc_set_parameter", "config"),
 ("n_hdr_h", "svt_av1_enc_stream_header", "handle"), ("n_hdr_out", "svt_av1_enc_stream_header", "output pointer"),
 ("n_hdr_release", "svt_av1_enc_stream_header_release", "buffer"),
 ("n_send_h", "svt_av1_enc_send_picture", "handle"), ("n_send_buf", "svt_av1_enc_send_picture", "p_buffer"),
 ("n_getpkt_h", "svt_av1_enc_get_packet", "handle"), ("n_getpkt_buf", "svt_av1_enc_get_packet", "p_buffer"),
 ("n_release_null", "svt_av1_enc_release_out_buffer", "p_buffer"), ("n_release_pnull", "svt_av1_enc_release_out_buffer", "*p_buffer"),
 ("n_recon_h", "svt_av1_get_recon", "handle"), ("n_recon_buf", "svt_av1_get_recon", "p_buffer"),
 ("n_info_h", "svt_av1_enc_get_stream_info", "handle"), ("n_info_out", "svt_av1_enc_get_stream_info", "info"),
]
META = {
    "level_text": "Bounded symbolic execution of every encoder/decoder API entry point from the real EbEncHandle.c/EbDecHandle.c with each pointer argument NULL (others valid, pipeline behind the handle replaced by nondeterministic stubs), with CBMC's pointer checks as the crash oracle; plus the configuration-mutex protocol of svt_av1_enc_set_parameter over ALL configurations (arbitrary bytes) followed by a valid one.",
    "level_note": "The handle is a harness-built object graph in the state svt_av1_enc_init_handle leaves it (not produced by the real constructor); SRM, prediction-structure constructor, sysconf and the header writer are stubs. Sequences involving svt_av1_enc_init (thread creation) and blocking packet waits are outside.",
    "assumptions": ["handle object graph as after init_handle", "SRM get/post/release stubs return a harness-owned wrapper or NULL (non-blocking)"],
    "outside": ["svt_av1_enc_init and everything behind it", "call sequences longer than 2"],
    "stubs": ["svt_block_on_mutex/svt_release_mutex (held-flag model with deadlock assertion)", "svt_get_*_object/svt_post_full_object/svt_release_object", "prediction_structure_group_ctor (nondet result)", "get_prediction_structure", "sysconf (1..256)", "encode_sps_av1", "output_bitstream_reset"],
    "explanation": ""}

def queries(tier):
    qs = []
    for e, fn, arg in NULLQ:
        qs.append(Query(name="enc_" + e, harness="C14/enc_api.c", entry=e, funcs=[H + fn], unwind=8,
                        bound="one call, %s == NULL, other arguments valid" % arg,
                        what="%s(%s=NULL) returns an error code, no invalid dereference" % (fn, arg), timeout=300))
    qs.append(Query(name="enc_m_reject_then_accept", harness="C14/enc_api.c", entry="m_reject_then_accept",
                    funcs=[H + "svt_av1_enc_set_parameter", H + "copy_api_from_app", H + "verify_settings", H + "set_param_based_on_input",
                           H + "load_default_buffer_configuration_settings"],
                    unwind=34, gen=gen_fill, defines=["SCS_STATIC=1"],
                    bound="set_parameter(arbitrary 1.8 kB configuration) then set_parameter(defaults + size 64..264 even)",
                    what="a rejected configuration leaves the handle usable; no call blocks on the configuration mutex", timeout=900,
                    checks=["--unwinding-assertions", "--drop-unused-functions", "--no-standard-checks"]))
    if False:   # runs out of memory (> 40 GB); the manual-prediction-structure copy is covered by enc_s_validate_arbitrary_config with the bounded entry count
      qs.append(Query(name="enc_s_validate_manual_pred_struct", harness="C14/enc_api.c", entry="s_validate_arbitrary_config",
                    funcs=[H + "copy_api_from_app", H + "verify_settings"], unwind=34, gen=gen_fill, defines=["SCS_STATIC=1", "ONLY_MANUAL_PS=1"],
                    bound="defaults + arbitrary manual prediction structure (entry count any int32 except 3..32, all entry contents)",
                    what="validating any manual prediction structure performs no out-of-bounds access", timeout=3000, mem_gb=40))
    qs.append(Query(name="enc_s_validate_arbitrary_config", harness="C14/enc_api.c", entry="s_validate_arbitrary_config",
                    funcs=[H + "copy_api_from_app", H + "verify_settings", H + "set_default_configuration_parameters"],
                    unwind=34, gen=gen_fill, defines=["SCS_STATIC=1", "NO_MANUAL_PS=1"], mem_gb=24,
                    bound="all configurations with the manual prediction structure switched off (every other field arbitrary)",
                    what="validating any configuration (valid or not) performs no out-of-bounds access / undefined arithmetic", timeout=900))
    return qs
