import os, re
from vlib.core import Query, REPO

def gen_walk(wd):
    """Slices the superblock walk of mode_decision_kernel (EbEncDecProcess.c) into a function.
    Anchors must be unique; otherwise the check is inconclusive, never silently passing."""
    src = open(os.path.join(REPO, "Source/Lib/Encoder/Codec/EbEncDecProcess.c")).read()
    a = "x_sb_start_index = segments_ptr->x_start_array[segment_index];"
    b = "// Reset Coding Loop State"
    if src.count(a) != 1:
        raise RuntimeError("anchor for the segment walk set-up not found exactly once")
    i = src.index(a); j = src.index(b, i)
    setup = src[i:j]
    m = re.search(r"for \(y_sb_index = y_sb_start_index.*?\{\s*for \(x_sb_index = x_sb_start_index.*?\{", src[j:], re.S)
    if not m:
        raise RuntimeError("anchor for the segment walk loop headers not found")
    loops = m.group(0)
    # tail of the outer loop body: everything between the end of the inner loop's body and the end of
    # the outer loop's body (brace matching; comments and literals of this region contain no braces)
    def match(pos):
        depth = 1
        while depth:
            c = src[pos]
            if c == "{":
                depth += 1
            elif c == "}":
                depth -= 1
            pos += 1
        return pos
    inner_open = j + m.end()                  # just after the inner loop's '{'
    inner_close = match(inner_open)           # just after the inner loop's '}'
    outer_open = j + m.start() + src[j + m.start():].index("{") + 1
    outer_close = match(outer_open)
    tail = src[inner_close:outer_close - 1]
    if "{" in tail and tail.count("{") != tail.count("}"):
        raise RuntimeError("unbalanced tail of the segment walk loop")
    with open(os.path.join(wd, "c24_walk.inc"), "w") as f:
        f.write("/* generated from EbEncDecProcess.c (mode_decision_kernel): loop set-up, both loop headers and the\n"
                "   tail of the outer loop body are the repository's text; the per-superblock body is replaced by visit_sb() */\n"
                "static void walk_segment(EncDecSegments *segments_ptr, uint16_t segment_index, uint32_t tile_group_width_in_sb) {\n"
                "    uint32_t x_sb_start_index, y_sb_start_index, sb_start_index, sb_segment_count, segment_row_index, segment_band_index, segment_band_size;\n"
                "    uint32_t x_sb_index, y_sb_index, sb_segment_index;\n")
        f.write("    " + setup + "\n    " + loops + "\n        visit_sb(x_sb_index, y_sb_index);\n    }\n" + tail + "\n}\n}\n")

S1 = "Source/Lib/Encoder/Codec/EbEncDecSegments.c:"
P1 = "Source/Lib/Encoder/Codec/EbEncDecProcess.c:"
F = [S1 + "enc_dec_segments_ctor", S1 + "enc_dec_segments_init", P1 + "assign_enc_dec_segments", P1 + "mode_decision_kernel (superblock walk, sliced)"]
META = {
    "engine": "E5 symbolic scheduler (atomic at assign_enc_dec_segments granularity)",
    "level_text": "Bounded symbolic run of the real segment initialisation, the real assign_enc_dec_segments and the sliced real superblock walk: concrete picture sizes in superblocks, SYMBOLIC segment grid (1..4 x 1..4, clamping included), SYMBOLIC schedule of 3 workers; monitors: each superblock visited once and only by its segment's walk, left/upper/upper-right neighbours finished before a segment starts, each segment handed out once, picture complete at quiescence, data of a segment row only modified under that row's mutex. Plus geometry post-conditions on larger pictures.",
    "level_note": "assign calls are atomic steps (interleavings inside one call are covered only by the lock-discipline monitor); picture sizes are a small concrete list, not 1..65 x 1..34; tile groups not modelled (one group = whole picture); feedback tasks go through a harness queue instead of the real SRM (C23).",
    "technique": "CBMC bounded symbolic execution with symbolic segment grid and symbolic worker schedule; source slicing of the walk loop by anchors",
    "assumptions": ["mutex model as in harness/common/threads_model.h", "one tile group"],
    "outside": ["picture sizes beyond the listed ones", "interleavings inside assign_enc_dec_segments", "more than 3 workers"],
    "stubs": ["svt_get_empty_object/svt_post_full_object -> harness task queue", "EbThreads.c -> threads_model.h"], "explanation": ""}
def R(w, h, sc, sr, steps, maxseg=4, to=900):
    return Query(name="run_%dx%d_grid%dx%d" % (w, h, sc, sr), harness="C24/segs.c",
                 defines=["MODE=1", "PW=%d" % w, "PH=%d" % h, "SC=%d" % sc, "SR=%d" % sr, "MAXSEG=%d" % maxseg, "NSTEPS=%d" % steps],
                 gen=gen_walk, unwind=max(w * h, 2 * maxseg * maxseg, steps) + 2, unwindset=["walk_segment.0:%d" % (max(w, h) + 2), "walk_segment.1:%d" % (max(w, h) + 2)],
                 funcs=F, timeout=to, mem_gb=24,
                 checks=["--unwinding-assertions", "--drop-unused-functions", "--no-standard-checks"],   # explicit assertions only; memory safety of the same code is in the geometry queries
                 bound="picture %dx%d superblocks, requested segment grid %dx%d (cols x rows), 3 workers, %d symbolic scheduler steps" % (w, h, sc, sr, steps),
                 what="each superblock once, dependency order, completion, lock discipline under every worker schedule")
def G(w, h, sc, sr, maxseg=8, to=900):
    return Query(name="geom_%dx%d_grid%dx%d" % (w, h, sc, sr), harness="C24/segs.c",
                 defines=["MODE=2", "PW=%d" % w, "PH=%d" % h, "SC=%d" % sc, "SR=%d" % sr, "MAXSEG=%d" % maxseg],
                 gen=gen_walk, unwind=max(w * h, 2 * maxseg * maxseg) + 2, unwindset=["walk_segment.0:%d" % (max(w, h) + 2), "walk_segment.1:%d" % (max(w, h) + 2)],
                 funcs=F[:2] + F[3:], timeout=to, mem_gb=24,
                 bound="picture %dx%d superblocks, requested grid %dx%d" % (w, h, sc, sr),
                 what="segments partition the picture; row bounds bracket the row's segments; each segment's walk visits exactly its members")
def queries(tier):
    qs = [R(1, 2, 1, 2, 8), R(1, 3, 1, 3, 10), R(2, 1, 1, 2, 6), R(2, 2, 1, 2, 10), R(2, 2, 2, 2, 10), R(3, 2, 2, 2, 14), R(2, 3, 2, 3, 16),
          G(9, 5, 4, 3), G(6, 4, 8, 8), G(7, 3, 2, 2), G(5, 2, 2, 4), G(1, 3, 1, 3)]
    if False:   # 3x3 runs and the larger geometry queries did not finish in 2400 s / 17 GB (measured); thorough = quick for this property
        for (w, h) in [(3, 3)]:
            for sc in (2, 3):
                for sr in (2, 3):
                    q = R(w, h, sc, sr, 2 * min(sc, w) * 0 + 22, to=2400)
                    if q.name not in [x.name for x in qs]:
                        qs.append(q)
        qs += [G(17, 9, 6, 4, to=2400), G(12, 7, 8, 7, to=2400), G(5, 9, 3, 8, to=2400)]
    return qs
