from vlib.core import Query
OBJS = {1: ("enc_dec_segments", ["Source/Lib/Encoder/Codec/EbEncDecSegments.c:enc_dec_segments_ctor", "Source/Lib/Encoder/Codec/EbEncDecSegments.c:enc_dec_segments_dctor"], "segment grid 1..3 x 1..3"),
        2: ("system_resource", ["Source/Lib/Common/Codec/EbSystemResourceManager.c:svt_system_resource_ctor", "Source/Lib/Common/Codec/EbSystemResourceManager.c:svt_system_resource_dctor",
                                "Source/Lib/Common/Codec/EbSystemResourceManager.c:svt_muxing_queue_ctor", "Source/Lib/Common/Codec/EbSystemResourceManager.c:svt_fifo_ctor"], "1 object, 1 producer fifo, 1 consumer fifo"),
        3: ("picture_buffer_desc", ["Source/Lib/Common/Codec/EbPictureBufferDesc.c:svt_picture_buffer_desc_ctor", "Source/Lib/Common/Codec/EbPictureBufferDesc.c:svt_picture_buffer_desc_dctor"], "8x8 4:2:0, 8/10 bit, every plane mask, split mode on/off"),
        4: ("output_bitstream_unit", ["Source/Lib/Common/Codec/EbBitstreamUnit.c:output_bitstream_unit_ctor"], "buffer 1..64 bytes")}
META = {
    "level_text": "Fault enumeration by solver: each real constructor runs under the real EB_NEW protocol with exactly one of its allocation / mutex / semaphore creation requests failing -- the k-th, k a solver variable covering every position, or none, then the real destructor chain; assertions: error reported, no NULL dereference / invalid free (CBMC pointer checks), no allocation or OS object left. Plus svt_create_thread under every pthread_create outcome.",
    "level_note": "Object sizes are small (8x8 pictures, <=3x3 segment grids, <=2 pool objects); failures during svt_av1_enc_init as a whole are covered only constructor by constructor for the listed objects. malloc/calloc/posix_memalign/realloc are routed through harness/common/alloc_model.h by macro.",
    "technique": "CBMC bounded symbolic execution with a symbolic failure decision per allocation request; replay under ASan/LSan",
    "assumptions": ["EbThreads.c replaced by harness/common/threads_model.h (creation may fail)"],
    "outside": ["constructors not listed", "failures inside running pipeline threads"],
    "stubs": ["svt_print_alloc_fail (empty)"], "explanation": ""}
EH = "Source/Lib/Encoder/Globals/EbEncHandle.c"
def gen_handle(wd):
    import os
    from vlib import slicer
    import re
    src = slicer.read(EH)
    consts = "".join(l + "\n" for l in src.split("\n") if re.match(r"#define EB_(EncodeInstancesTotalCount|ComputeSegmentInitCount|SequenceControlSetPoolInitCount)\b", l))
    open(os.path.join(wd, "c16_handle.inc"), "w").write("/* constants of EbEncHandle.c, verbatim */\n" + consts + slicer.functions(EH, ["svt_enc_handle_stop_threads", "svt_enc_handle_dctor", "svt_enc_handle_ctor"]))
def gen_wrapper(wd):
    import os
    from vlib import slicer
    open(os.path.join(wd, "c16_wrapper.inc"), "w").write(slicer.functions(EH, ["svt_output_recon_buffer_header_creator", "svt_output_recon_buffer_header_destroyer"]))
def queries(tier, fail=1, prefix="fail_"):
    qs = []
    qs.append(Query(name=prefix + "object_wrapper_recon_header", harness="C16/ctors.c", gen=gen_wrapper, defines=["OBJ=6", "FAIL=%d" % fail], unwind=4,
                    funcs=["Source/Lib/Common/Codec/EbSystemResourceManager.c:svt_object_wrapper_ctor", "Source/Lib/Common/Codec/EbSystemResourceManager.c:svt_object_wrapper_dctor", EH + ":svt_output_recon_buffer_header_creator", EH + ":svt_output_recon_buffer_header_destroyer"],
                    bound="one pool object wrapper around a recon buffer header of an 8x8 picture, 8/10 bit" + ("; the k-th allocation request fails, all k" if fail else "; no failures"),
                    what="a failing object creator is reported and the half-built wrapper is unwound without crash or leak" if fail else "wrapper constructor+destructor release every allocation", timeout=600))
    # one query per failure position: with a symbolic position the ~40 array-delete loops of the handle destructor read their counts through
    # a pointer that is NULL on some merged paths, become symbolic and are unrolled to the bound (no verdict in 15 min); concrete positions take seconds
    for kk in (range(0, 10) if fail else [99]):
        qs.append(Query(name=prefix + "enc_handle" + ("_k%d" % kk if fail else ""), harness="C16/ctors.c", gen=gen_handle, defines=["OBJ=5", "FAIL=%d" % fail] + (["KLO=%d" % kk, "KHI=%d" % kk] if fail else []), unwind=3,
                        funcs=[EH + ":svt_enc_handle_ctor", EH + ":svt_enc_handle_dctor", EH + ":svt_enc_handle_stop_threads"],
                        bound="handle creation (svt_av1_enc_init_handle -> svt_enc_handle_ctor); the sequence-control-set instance constructor replaced by a stand-in with 4 requests (8 requests in total)" + ("; request number %d fails (a number beyond the last request = no failure)" % kk if fail else "; no failures"),
                        what="construction failure of the encoder handle is reported and unwound without crash or leak" if fail else "handle constructor+destructor release every allocation", timeout=600))
    for k, (n, funcs, b) in OBJS.items():
        if k == 2 and fail:
            continue      # measured: the resource manager's partial-teardown paths need >12 GB per query and did not finish; not registered
            # (kept for reference)
            for lo, hi in ((0, 2), (3, 5), (6, 8), (9, 11), (12, 14), (15, 17), (18, 20), (21, 23), (24, 40)):
                qs.append(Query(name="%s%s_k%d_%d" % (prefix, n, lo, hi), harness="C16/ctors.c", defines=["OBJ=2", "FAIL=1", "KLO=%d" % lo, "KHI=%d" % hi], unwind=4, funcs=funcs,
                                bound=b + "; the k-th allocation/OS-object request fails, k symbolic in [%d,%d] (k beyond the last request = no failure)" % (lo, hi),
                                what="construction failure is reported and unwound without crash or leak", timeout=3000, mem_gb=28))
            continue
        qs.append(Query(name=prefix + n, harness="C16/ctors.c", defines=["OBJ=%d" % k, "FAIL=%d" % fail], unwind=4 if k in (1, 2) else 12, funcs=funcs,
                        bound=b + ("; the k-th allocation/OS-object request fails, all k" if fail else "; no failures"),
                        what="construction failure is reported and unwound without crash or leak" if fail else "constructor+destructor release every allocation, mutex and semaphore",
                        timeout=600))
    if fail:
        qs.append(Query(name="fail_create_thread", harness="C16/thread.c", unwind=4, funcs=["Source/Lib/Common/Codec/EbThreads.c:svt_create_thread"],
                        bound="malloc may fail; each pthread_create returns 0, EPERM or EAGAIN", what="thread creation failure is reported (NULL) and leaves nothing behind"))
    return qs
