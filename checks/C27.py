"""C27: output and progress do not depend on how the application paces its calls (mechanism-level queries)."""
import os
from vlib.core import Query
from vlib import slicer
EH = "Source/Lib/Encoder/Globals/EbEncHandle.c"
PK = "Source/Lib/Encoder/Codec/EbPacketizationProcess.c"
SRM = "Source/Lib/Common/Codec/EbSystemResourceManager.c"


def gen(wd):
    A = "                                                    output_stream_wrapper_ptr->object_ptr;\n"
    blk = slicer.between(PK, A, "        // Get Empty Rate Control Input Tasks")
    if blk.startswith(A):
        blk = blk[len(A):]
    open(os.path.join(wd, "c27_fill.inc"), "w").write(
        "/* sliced verbatim from packetization_kernel */\nstatic void fill_header(SequenceControlSet *scs_ptr, EncodeContext *encode_context_ptr, PictureControlSet *pcs_ptr, EbBufferHeaderType *output_stream_ptr) {\n" + blk + "\n}\n")
    open(os.path.join(wd, "c27_release.inc"), "w").write(slicer.functions(EH, ["svt_av1_enc_release_out_buffer"]))
    open(os.path.join(wd, "c27_creator.inc"), "w").write(slicer.functions(EH, ["svt_output_buffer_header_creator"]))
    open(os.path.join(wd, "c27_api.inc"), "w").write(slicer.functions(EH, ["svt_av1_enc_get_packet", "svt_av1_enc_release_out_buffer"]))


META = {
    "engine": "E2 bounded histories",
    "level_text": "Three mechanism-level queries on the real code. (1) Bounded call histories: every sequence of K atomic steps chosen by the solver among {encoder posts the next packet through the real resource manager, application polls with the real svt_av1_enc_get_packet(non-blocking), application returns any held packet with the real svt_av1_enc_release_out_buffer} on a pool of 2 output headers, followed by a drain: packets arrive exactly once, in posting order, with the payload and flags they were posted with; a poll returns 'empty' exactly when nothing is queued; the producer finds no free header only when every header is queued or held by the application (back-pressure, nothing lost); after the drain the pool is whole. (2) The header-initialisation statements of packetization_kernel produce identical application-visible fields whatever the recycled header carried before (2-safety). (3) svt_av1_enc_release_out_buffer clears the payload before the header becomes visible to the encoder.",
    "level_note": "Histories are sequences of atomic API calls (the atomicity of resource-manager calls under thread interleaving is C23's subject); whole-encoder progress (all pipeline stages) and the recon output pool are outside; K and the pool size are small.",
    "technique": "CBMC bounded symbolic execution of real EbSystemResourceManager.c + real get_packet/release_out_buffer (sliced by name) under solver-chosen call histories; self-composition for the recycled-header query",
    "assumptions": ["resource-manager calls are atomic w.r.t. each other (mutex-protected; C23)", "allocation succeeds"],
    "outside": ["svt_av1_get_recon pool", "blocking waits inside pipeline stages other than the output pool", "K > bound"],
    "stubs": ["EbThreads.c -> harness/common/threads_model.h (counter semaphores, flag mutexes)", "svt_release_object -> monitor (query 3 only)"],
    "explanation": ""}


def queries(tier):
    qs = [Query(name="recycled_header_fields_rewritten", harness="C27/recycle.c", gen=gen, unwind=4, timeout=600,
                funcs=[PK + ":packetization_kernel (output header initialisation, sliced)"],
                bound="two arbitrary previous header contents, arbitrary picture/EOS state", what="flags, sizes, timestamps, type, qp, private pointer, statistics identical for both headers"),
          Query(name="release_clears_payload_before_recycling", harness="C27/release.c", gen=gen, unwind=4, timeout=600,
                funcs=[EH + ":svt_av1_enc_release_out_buffer"], bound="NULL / non-NULL argument, payload, wrapper combinations",
                what="payload freed and pointer cleared before svt_release_object makes the header available to the encoder")]
    def hist(k, nobj=2, to=1500, be="cadical"):
        return Query(name=f"pacing_history_k{k}_pool{nobj}", harness="C27/pacing.c", gen=gen, defines=[f"K={k}", f"NOBJ={nobj}"], unwind=max(k, 4) + 2, timeout=to, mem_gb=24, backend=be,
                     checks=["--unwinding-assertions", "--drop-unused-functions", "--no-standard-checks"],   # explicit assertions only: memory safety of the resource manager under all interleavings is C23's query
                    
                     funcs=[EH + ":svt_av1_enc_get_packet", EH + ":svt_av1_enc_release_out_buffer", EH + ":svt_output_buffer_header_creator", SRM + ":svt_get_empty_object", SRM + ":svt_post_full_object",
                            SRM + ":svt_get_full_object", SRM + ":svt_get_full_object_non_blocking", SRM + ":svt_release_object", SRM + ":svt_system_resource_ctor"],
                     bound=f"every history of {k} steps over {{post, poll, release any held}}, pool of {nobj} output headers, then drain", what="exactly-once in-order delivery, accurate 'empty' answers, back-pressure only when all headers are out, pool whole after drain")
    qs.append(hist(4))
    if tier == "thorough":
        qs.append(hist(6, 2, 3000, "minisat"))   # measured: 9 min with minisat; cadical did not finish in 40 min on this instance
    return qs
