from vlib.core import Query
P = "Source/Lib/Encoder/Codec/EbPacketizationProcess.c:"
F = [P + f for f in ("packetization_kernel", "count_frames_in_next_tu", "encode_tu", "encode_show_existing", "release_frames", "collect_frames_info",
                     "push_undisplayed_frame", "pop_undisplayed_frame", "sort_undisplayed_frame", "copy_data_from_bitstream", "get_reorder_queue_pos")]
META = {
    "engine": "E2 kernel-under-stubs",
    "level_text": "The real packetization_kernel executed symbolically over a window of K pictures: arbitrary arrival order, arbitrary hidden/shown/show-existing shape (<=1 outstanding hidden frame), arbitrary frame types, arbitrary stale reorder-queue contents, queue window starting at decode order 0 / 2046 / 2047 / 4095 (2047->0 wrap inside the window), EOS on/off; every packet posted to the application is checked: temporal delimiter first, whole OBUs only, size == sum of parts, exactly one displayed frame, frames in decode order, sequence header before every key frame, pts/dts/private pointer of the k-th displayed picture, show-existing and EOS flags, picture type KEY iff key frame.",
    "level_note": "Header writers (encode_sps_av1, write_frame_header_av1, write_metadata_av1) are replaced by marker writers: validity of real OBU headers is decided separately on the real writers (queries hdr_*). Tile payload bytes are opaque. K<=3 (quick) / 4 (thorough).",
    "technique": "CBMC bounded symbolic execution of the real kernel loop with stubbed queues (shutdown path bounds the loop)",
    "assumptions": ["GOP well-formedness: each temporal unit = hidden* shown; show-existing refers to the outstanding hidden frame; key frames are shown", "frame_type == KEY_FRAME iff idr_flag (EbPictureDecisionProcess.c)"],
    "outside": ["real OBU payload validity (C25/C01)", "more than one outstanding hidden frame", "metadata OBUs"],
    "stubs": ["svt_get_full_object (K results then shutdown)", "svt_get_empty_object/svt_post_full_object/svt_release_object", "encode_sps_av1/write_frame_header_av1/write_metadata_av1 (markers)", "encode_td_av1 (0x12 0x00)", "bitstream_reset/_get_bytes_count/_copy", "qsort (insertion sort)", "svt_av1_get_time (arbitrary)", "rate_control_mode == 0 (update_rc_rate_tables not reached)"],
    "explanation": ""}
import math
def queries(tier):
    qs = []
    plan = [(2, [0, 2047, 4095]), (3, [2046])] if tier != "thorough" else [(2, [0, 1, 2046, 2047, 4095]), (3, [0, 2045, 2046, 2047]), (4, [2045, 2046])]
    for k, heads in plan:
        for head in heads:
            for perm in range(math.factorial(k)):
                qs.append(Query(name="tu_K%d_head%d_perm%d" % (k, head, perm), harness="C02/pkt.c", defines=["K=%d" % k, "PERM=%d" % perm, "HEAD=%d" % head],
                                unwind=4 * k + 6, funcs=F, timeout=900 if k < 4 else 3000,
                                bound="window of %d pictures starting at decode order %d (queue depth 2048), arrival permutation #%d; symbolic: hidden/shown/show-existing shape, frame types, reference flags, frame sizes, stale queue contents, EOS" % (k, head, perm),
                                what="every packet is one well-formed temporal unit with the right pts/flags/type"))
    return qs
