from vlib.core import Query
P = "Source/Lib/Encoder/Codec/EbPacketizationProcess.c:"
F = [P + f for f in ("packetization_kernel", "count_frames_in_next_tu", "encode_tu", "encode_show_existing", "release_frames", "collect_frames_info",
                     "push_undisplayed_frame", "pop_undisplayed_frame", "sort_undisplayed_frame", "copy_data_from_bitstream", "get_reorder_queue_pos")]
META = {
    "engine": "E2 kernel-under-stubs",
    "level_text": "The real packetization_kernel executed symbolically over a window of K pictures: arbitrary arrival order, arbitrary hidden/shown/show-existing shape (<=1 outstanding hidden frame), arbitrary frame types, arbitrary stale reorder-queue contents, queue window starting at decode order 0 / 2046 / 2047 / 4095 (2047->0 wrap inside the window), EOS on/off; every packet posted to the application is checked: temporal delimiter first, whole OBUs only, size == sum of parts, exactly one displayed frame, frames in decode order, sequence header before every key frame, pts/dts/private pointer of the k-th displayed picture, show-existing and EOS flags, picture type KEY iff key frame.",
    "level_note": "Header writers (encode_sps_av1, write_frame_header_av1, write_metadata_av1) are replaced by marker writers: validity of real OBU headers is decided separately on the real writers (queries hdr_*). Tile payload bytes are opaque. Whole-kernel window queries (pkt.c, drain.c) did not finish within budget and are not registered: only OBU framing and the picture-type / sequence-header statements are decided.",
    "technique": "CBMC bounded symbolic execution of the real kernel loop with stubbed queues (shutdown path bounds the loop)",
    "assumptions": ["GOP well-formedness: each temporal unit = hidden* shown; show-existing refers to the outstanding hidden frame; key frames are shown", "frame_type == KEY_FRAME iff idr_flag (EbPictureDecisionProcess.c)"],
    "outside": ["real OBU payload validity (C25/C01)", "more than one outstanding hidden frame", "metadata OBUs"],
    "stubs": ["svt_get_full_object (K results then shutdown)", "svt_get_empty_object/svt_post_full_object/svt_release_object", "encode_sps_av1/write_frame_header_av1/write_metadata_av1 (markers)", "encode_td_av1 (0x12 0x00)", "bitstream_reset/_get_bytes_count/_copy", "qsort (insertion sort)", "svt_av1_get_time (arbitrary)", "rate_control_mode == 0 (update_rc_rate_tables not reached)"],
    "explanation": ""}
import math, os, re
from vlib.core import REPO
from vlib import slicer
EC = "Source/Lib/Encoder/Codec/EbEntropyCoding.c"
def gen_obu(wd):
    names = ["svt_aom_uleb_size_in_bytes", "svt_aom_uleb_encode", "svt_aom_wb_bytes_written", "svt_aom_wb_write_bit", "svt_aom_wb_write_literal", "write_obu_header", "write_uleb_obu_size", "obu_mem_move"]
    open(os.path.join(wd, "c02_obu.inc"), "w").write("static const size_t k_maximum_leb_128_size = 8;\nstatic const uint64_t k_maximum_leb_128_value = 0xFFFFFFFFFFFFFF;\n" + slicer.functions(EC, names))
PK = "Source/Lib/Encoder/Codec/EbPacketizationProcess.c"
def gen_fill(wd):
    a = slicer.between(PK, "        output_stream_ptr->pic_type =", ";", include_b=True)
    b = slicer.between(PK, "        // Code the SPS\n", "encode_sps_av1(")
    cond = b[len("        // Code the SPS\n"):]   # everything between the comment and the call: declarations the condition uses are kept
    if cond.count("{") != 1:
        raise RuntimeError("unexpected shape of the sequence-header condition")
    open(os.path.join(wd, "c02_fill.inc"), "w").write(
        "/* sliced verbatim from packetization_kernel */\n"
        "static void set_pic_type(PictureControlSet *pcs_ptr, EbBufferHeaderType *output_stream_ptr) {\n" + a + "\n}\n"
        "static void sps_decision(PictureControlSet *pcs_ptr, SequenceControlSet *scs_ptr, FrameHeader *frm_hdr, PacketizationReorderEntry *queue_entry_ptr) {\n    (void)pcs_ptr; (void)scs_ptr; (void)frm_hdr; (void)queue_entry_ptr;\n    "
        + cond + " encode_sps_av1_stub(); }\n}\n")
def gen_drain(wd):
    src = open(os.path.join(REPO, "Source/Lib/Encoder/Codec/EbPacketizationProcess.c")).read()
    a = "        uint32_t frames, total_bytes;\n        while ((frames = count_frames_in_next_tu(encode_context_ptr, &total_bytes))) {"
    if src.count(a) != 1:
        raise RuntimeError("anchor of the queue-drain loop in packetization_kernel not found exactly once")
    i = src.index(a)
    j = src.index("{", i + len(a) - 1)
    depth, pos = 1, j + 1
    while depth:
        c = src[pos]; depth += (c == "{") - (c == "}"); pos += 1
    body = src[i:pos]
    with open(os.path.join(wd, "c02_drain.inc"), "w") as f:
        f.write("/* sliced verbatim from packetization_kernel (EbPacketizationProcess.c) */\n"
                "static void drain_queue(PacketizationContext *context_ptr, EncodeContext *encode_context_ptr) {\n"
                "    PacketizationReorderEntry *queue_entry_ptr; EbObjectWrapper *output_stream_wrapper_ptr; EbBufferHeaderType *output_stream_ptr;\n" + body + "\n}\n")
def queries(tier):
    qs = []
    OF = [EC + ":" + n for n in ("write_obu_header", "obu_mem_move", "write_uleb_obu_size", "svt_aom_uleb_encode", "svt_aom_uleb_size_in_bytes")]
    qs.append(Query(name="obu_framing_p0_140", harness="C02/obu.c", defines=["PMIN=0", "PMAX=140"], gen=gen_obu, unwind=160, funcs=OF, timeout=900,
                    bound="every OBU type 1..8, with/without extension byte, payload length 0..140 (1-byte/2-byte size-field boundary inside), all payload bytes", what="OBU header bits and leb128 size field match the payload; payload intact behind the size field"))
    qs.append(Query(name="pic_type_and_sps_placement", harness="C02/fill.c", gen=gen_fill, unwind=4, funcs=[PK + ":packetization_kernel (pic_type assignment and sequence-header condition, sliced)"], timeout=600,
                    bound="all combinations of idr/reference flags and slice types; arbitrary stale reorder-queue entry", what="reported picture type agrees with the frame; sequence header exactly at key frames"))
    if False:   # did not finish in 3000 s (payload loop of 16 k bytes); the 2-byte/3-byte size-field boundary is therefore outside the claim
        qs.append(Query(name="obu_framing_p16370_16400", harness="C02/obu.c", defines=["PMIN=16370", "PMAX=16400"], gen=gen_obu, unwind=16420, funcs=OF, timeout=3000,
                        bound="payload length 16370..16400 (2-byte/3-byte boundary)", what="OBU size field matches the payload"))
    for k, heads in []:   # drain_K* queries (C02/drain.c) never finished within 900 s / 24 GB; kept in the harness directory, not registered
        for head in heads:
            qs.append(Query(name="drain_K%d_head%d" % (k, head), harness="C02/drain.c", defines=["K=%d" % k, "HEAD=%d" % head], gen=gen_drain, unwind=2 * k + 6, funcs=F[1:], timeout=900,
                            bound="window of %d pictures at decode order %d, queue depth macro scaled from 2048 to 8 (wrap 7->0), ALL arrival orders, all hidden/shown/show-existing shapes (<=1 outstanding hidden frame), frame sizes 1..3, stale slot contents, EOS on/off" % (k, head),
                            what="temporal-unit assembly: one well-formed packet per displayed picture, in order, with the right pts and flags"))
    return qs   # the whole-kernel tu_K* queries below (C02/pkt.c) never finished within budget either; not registered
    plan = [(2, [0, 2047, 4095]), (3, [2046])] if tier != "thorough" else [(2, [0, 1, 2046, 2047, 4095]), (3, [0, 2045, 2046, 2047]), (4, [2045, 2046])]
    for k, heads in plan:
        for head in heads:
            for perm in range(math.factorial(k)):
                qs.append(Query(name="tu_K%d_head%d_perm%d" % (k, head, perm), harness="C02/pkt.c", defines=["K=%d" % k, "PERM=%d" % perm, "HEAD=%d" % head],
                                unwind=4 * k + 6, funcs=F, timeout=900 if k < 4 else 3000,
                                bound="window of %d pictures starting at decode order %d (queue depth 2048), arrival permutation #%d; symbolic: hidden/shown/show-existing shape, frame types, reference flags, frame sizes, stale queue contents, EOS" % (k, head, perm),
                                what="every packet is one well-formed temporal unit with the right pts/flags/type"))
    return qs
