from vlib.core import Query
P = "Source/Lib/Encoder/Codec/EbPacketizationProcess.c:"
F = [P + f for f in ("packetization_kernel", "count_frames_in_next_tu", "encode_tu", "encode_show_existing", "release_frames", "collect_frames_info",
                     "push_undisplayed_frame", "pop_undisplayed_frame", "sort_undisplayed_frame", "copy_data_from_bitstream", "get_reorder_queue_pos")]
META = {
    "engine": "E2 kernel-under-stubs",
    "level_text": "The real packetization_kernel executed symbolically over a window of K pictures: arbitrary arrival order, arbitrary hidden/shown/show-existing shape (<=1 outstanding hidden frame), arbitrary frame types, arbitrary stale reorder-queue contents, queue head at 0 / 2046 / 2047 (wrap inside the window), EOS on/off; every packet posted to the application is checked: temporal delimiter first, whole OBUs only, size == sum of parts, exactly one displayed frame, frames in decode order, sequence header before every key frame, pts/dts/private pointer of the k-th displayed picture, show-existing and EOS flags, picture type KEY iff key frame.",
    "level_note": "Header writers (encode_sps_av1, write_frame_header_av1, write_metadata_av1) are replaced by marker writers: validity of real OBU headers is decided separately on the real writers (queries hdr_*). Tile payload bytes are opaque. K<=3 (quick) / 4 (thorough).",
    "technique": "CBMC bounded symbolic execution of the real kernel loop with stubbed queues (shutdown path bounds the loop)",
    "assumptions": ["GOP well-formedness: each temporal unit = hidden* shown; show-existing refers to the outstanding hidden frame; key frames are shown", "frame_type == KEY_FRAME iff idr_flag (EbPictureDecisionProcess.c)"],
    "outside": ["real OBU payload validity (C25/C01)", "more than one outstanding hidden frame", "metadata OBUs"],
    "stubs": ["svt_get_full_object (K results then shutdown)", "svt_get_empty_object/svt_post_full_object/svt_release_object", "encode_sps_av1/write_frame_header_av1/write_metadata_av1 (markers)", "encode_td_av1 (0x12 0x00)", "bitstream_reset/_get_bytes_count/_copy", "qsort (insertion sort)", "svt_av1_get_time (arbitrary)", "rate_control_mode == 0 (update_rc_rate_tables not reached)"],
    "explanation": ""}
def queries(tier):
    qs = [Query(name="tu_K2", harness="C02/pkt.c", defines=["K=2"], unwind=12, funcs=F, timeout=900,
                bound="window of 2 pictures, all arrival orders, all shapes, heads {0,2046,2047,4095}", what="every packet is one well-formed temporal unit with the right pts/flags/type"),
          Query(name="tu_K3", harness="C02/pkt.c", defines=["K=3"], unwind=14, funcs=F, timeout=1200,
                bound="window of 3 pictures, all arrival orders, all shapes, heads {0,2046,2047,4095}", what="every packet is one well-formed temporal unit with the right pts/flags/type")]
    if tier == "thorough":
        qs.append(Query(name="tu_K4", harness="C02/pkt.c", defines=["K=4"], unwind=18, funcs=F, timeout=3600,
                        bound="window of 4 pictures", what="every packet is one well-formed temporal unit"))
    return qs
