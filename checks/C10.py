from vlib.core import Query
P = "Source/Lib/Decoder/Codec/EbDecParseObu.c:"
B = "Source/Lib/Decoder/Codec/EbDecBitstream.c:"
F = [P + "svt_get_sequence_info", P + "read_obu_header_size", P + "read_obu_header", P + "read_sequence_header_obu", P + "read_color_config", P + "read_timing_info",
     P + "read_decoder_model_info", P + "read_operating_params_info", B + "dec_bits_init", B + "dec_get_bits", B + "dec_get_bits_leb128", B + "dec_get_bits_uvlc"]
META = {
    "level_text": "For spliced input (a second sequence header inside the byte string): the decoder's decision to keep or re-allocate its frame-level memory (OBU_SEQUENCE_HEADER case of decode_multiple_obu, sliced) is checked against the real allocators init_dec_mod_ctxt / init_lf_ctxt / init_lr_ctxt for EVERY pair of old and new header: memory is kept only if no buffer would have to be larger. The real OBU-header / sequence-header parser behind the public svt_get_sequence_info on EVERY byte string of length 1..N held in a heap object of exactly that length: CBMC's pointer/bounds/shift/overflow checks and unwinding assertions (termination) are the oracle. Two variants: exact-size buffer (any over-read is reported) and a buffer with the bit reader's 8 bytes of look-ahead (everything except that look-ahead is reported). Plus the frame-level mode-info offset map: the real allocation statements of init_master_frame_ctxt and the real update_block_nbrs, for every block position inside the superblock-aligned frame of several concrete frame geometries (portrait and landscape, superblock 64 and 128): every write stays inside the allocation.",
    "level_note": "Parsing stops at the sequence header: frame headers, tile data and reconstruction on corrupt input are outside. The 16-byte look-ahead of dec_bits_init/GET_BITS past the caller's data is a known finding (see known_findings.txt), reported as KNOWN-FINDING by the exact-size variant.",
    "technique": "CBMC bounded symbolic execution of the real code: all input byte strings up to N with exact-size heap buffers (OBU walk); all block positions (mode-info map); 2-safety over all pairs of sequence headers against the real allocators (memory re-initialisation)",
    "assumptions": ["single call on a fresh SeqHeader"],
    "outside": ["svt_av1_dec_frame beyond the sequence header", "multi-threaded decode"],
    "stubs": [], "explanation": ""}
MI = "Source/Lib/Decoder/Codec/EbDecMemInit.c"
NB = "Source/Lib/Decoder/Codec/EbDecNbr.c"


def gen_mimap(wd):
    import os
    from vlib import slicer
    A = "    FrameMiMap *frame_mi_map = &main_frame_buf->frame_mi_map;\n"
    B = "    frame_mi_map->num_mis_in_sb_wd = (1 << (sb_size_log2 - MI_SIZE_LOG2));\n"
    blk = slicer.between(MI, A, B, True)
    open(os.path.join(wd, "c10_mimap.inc"), "w").write(
        "/* sliced verbatim from init_master_frame_ctxt (EbDecMemInit.c) */\nstatic EbErrorType alloc_mi_map(MainFrameBuf *main_frame_buf, int32_t sb_cols, int32_t sb_rows, int32_t sb_size_log2) {\n"
        + blk + "    return EB_ErrorNone;\n}\n" + slicer.functions(NB, ["update_block_nbrs"]))


def mimap(w, h, sbl, bs="BLOCK_4X4"):
    from vlib.core import Query as Q
    return Q(name="mi_offset_map_covers_frame_%dx%d_sb%d_%s" % (w, h, 1 << sbl, bs.lower()), harness="C10/mimap.c", gen=gen_mimap, defines=["FW=%d" % w, "FH=%d" % h, "SBL=%d" % sbl, "BSZ=%s" % bs], unwind=36, timeout=600, mem_gb=16, flags=["--slice-formula"],
             funcs=[MI + ":init_master_frame_ctxt (mode-info map allocation, sliced)", NB + ":update_block_nbrs"],
             bound="frame %dx%d, superblock %d, block size %s at every position inside the superblock-aligned frame" % (w, h, 1 << sbl, bs),
             what="the parser's per-block write into the 4x4 mode-info offset map stays inside the allocation")


def gen_reinit(wd):
    import os
    from vlib import slicer
    PO = "Source/Lib/Decoder/Codec/EbDecParseObu.c"
    blk = slicer.between(PO, "        case OBU_SEQUENCE_HEADER: {\n", "            break;\n        }\n        case OBU_FRAME_HEADER:")
    open(os.path.join(wd, "c10_reinit.inc"), "w").write(
        slicer.functions(MI, ["init_dec_mod_ctxt", "init_lf_ctxt", "init_lr_ctxt"])
        + "\n/* sliced verbatim from decode_multiple_obu (EbDecParseObu.c): the OBU_SEQUENCE_HEADER case */\n"
        + "static EbErrorType seq_header_case(EbDecHandle *dec_handle_ptr, Bitstrm bs) {\n    EbErrorType status = EB_ErrorNone;\n    switch (OBU_SEQUENCE_HEADER) {\n" + blk + "            break;\n        }\n    default: break;\n    }\n    return status;\n}\n")


def reinit():
    from vlib.core import Query as Q
    return Q(name="memory_reinitialised_when_sequence_header_needs_larger_buffers", harness="C10/reinit.c", gen=gen_reinit, unwind=42, timeout=1200, mem_gb=16, flags=["--slice-formula", "--object-bits", "12"],
             funcs=["Source/Lib/Decoder/Codec/EbDecParseObu.c:decode_multiple_obu (OBU_SEQUENCE_HEADER case, sliced)", MI + ":init_dec_mod_ctxt", MI + ":init_lf_ctxt", MI + ":init_lr_ctxt"],
             bound="every pair (old header, new header) with superblock 64/128, maximum frame size 16..4096 x 16..2304, bit depth 8/10/12, monochrome 0/1, chroma format 4:2:0/4:2:2/4:4:4, 8- or 16-bit pipeline, single-threaded decoder; the sequence-header parser is replaced by 'any new header, success or failure'; the allocators of the picture manager, parse context and frame buffers (init_main_frame_ctxt, dec_pic_mgr_init, init_parse_context) are outside",
             what="if the decoder keeps its memory after a second sequence header, no buffer of the three allocators would have to be larger for the new header (spliced-stream heap overflow otherwise)")


def queries(tier):
    qs = [reinit()]
    for n in ([2, 3, 5] if tier != "thorough" else [1, 2, 3, 4, 5, 6, 8]):
        for slack in ((0, 16) if n < 8 else (16,)):   # exact-size query at n=8 did not finish in 900 s
            qs.append(Query(name="obu_walk_%s_n%d" % ("exact" if slack == 0 else "slack16", n), harness="C10/seqinfo.c", defines=["NMAX=%d" % n, "NFIX=%d" % n, "SLACK=%d" % slack, "SEQ_BODY_STUBBED=1"], unwind=n + 22,
                            stub_out=["read_sequence_header_obu"], funcs=F[:3] + F[8:], timeout=900, mem_gb=20,
                            bound="all byte strings of length %d in a heap buffer of exactly %d bytes; OBU header, size field and OBU walk real, sequence-header body replaced by an arbitrary-result stub" % (n, n + slack),
                            what="no read outside the buffer%s, no UB, terminates, documented status" % ("" if slack == 0 else " beyond the bit reader's 16-byte look-ahead")))
    if False:   # full-parser queries never finished within an hour / 40 GB; not registered
        for slack in (0, 16):
            qs.append(Query(name="seqinfo_%s_n%d" % ("exact" if slack == 0 else "slack16", 8), harness="C10/seqinfo.c", defines=["NMAX=8", "SLACK=%d" % slack], unwind=34, funcs=F, timeout=3600, mem_gb=40,
                            bound="all byte strings of length 1..8, full sequence-header parser", what="no read outside the buffer, no UB, terminates"))
    qs += [mimap(64, 128, 6), mimap(64, 128, 6, "BLOCK_64X64"), mimap(128, 64, 6), mimap(192, 320, 6), mimap(192, 320, 6, "BLOCK_16X64"), mimap(320, 192, 7), mimap(256, 256, 7, "BLOCK_128X128")]
    if tier == "thorough":
        qs += [mimap(720, 1280, 6), mimap(1280, 720, 6), mimap(64, 64, 6), mimap(128, 384, 7, "BLOCK_64X128")]
    return qs
