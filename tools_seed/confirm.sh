#!/bin/bash
# usage: confirm.sh C06c   -- confirms a seed in its scratch worktree: tests + demo with change, demo without
S=$1; WT=/tmp/seed/$S; OUT=/tmp/seed/${S}_out; L=/tmp/seed/${S}_confirm.log
exec > $L 2>&1
cd $WT || exit 9
git checkout -- . ; git apply $OUT/patch.diff || { echo "APPLY FAILED"; exit 8; }
cmake --build $WT/_b --target SvtAv1EncApp SvtAv1DecApp SvtAv1ApiTests -- -j6 > /tmp/seed/${S}_b1.log 2>&1 || { echo "BUILD FAILED (with change)"; exit 7; }
$WT/Bin/RelWithDebInfo/SvtAv1ApiTests --gtest_filter='EncApi*:EncParam*' > /tmp/seed/${S}_t1.log 2>&1
echo "tests_with_change: $(grep -c '^\[       OK \]' /tmp/seed/${S}_t1.log) ok"
grep '^\[       OK \]' /tmp/seed/${S}_t1.log | sed 's/ (.*//' | sort > /tmp/seed/${S}_t1.list
( cd $OUT && timeout 900 bash ./run.sh $WT > /tmp/seed/${S}_d1.log 2>&1 ); echo "demo_with_change: exit $?"
git checkout -- .
cmake --build $WT/_b --target SvtAv1EncApp SvtAv1DecApp SvtAv1ApiTests -- -j6 > /tmp/seed/${S}_b0.log 2>&1 || { echo "BUILD FAILED (reverted)"; exit 6; }
( cd $OUT && timeout 900 bash ./run.sh $WT > /tmp/seed/${S}_d0.log 2>&1 ); echo "demo_without_change: exit $?"
echo CONFIRM-DONE
