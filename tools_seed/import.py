import json, os, shutil, subprocess, sys
s, need = sys.argv[1], sys.argv[2]
base=set(x.replace('::','.') for x in json.load(open('/root/.vp/BASELINE.json'))['stable_pass'])
got=set(l.strip().replace('[       OK ] ','') for l in open('/tmp/seed/%s_t1.list'%s))
assert base<=got, (s, base-got)
log=open('/tmp/seed/%s_confirm.log'%s).read(); assert 'demo_with_change: exit 1' in log and 'demo_without_change: exit 0' in log
d='/verif/seeded/'+s; shutil.rmtree(d, ignore_errors=True); shutil.copytree('/tmp/seed/%s_out'%s, d)
for f in os.listdir(d):
    if os.path.getsize(os.path.join(d,f))>400000: os.remove(os.path.join(d,f))
files=subprocess.run("grep '^diff --git' %s/patch.diff | sed 's/.* b\\///'"%d,shell=True,capture_output=True,text=True).stdout.split()
json.dump({"id":s,"breaks_property":s[:3],"files_changed":files,"needs_to_manifest":need,
  "confirmed":{"how":"applied in the scratch worktree /tmp/seed/%s of /repo HEAD outside /repo and /verif, rebuilt SvtAv1EncApp/SvtAv1DecApp/SvtAv1ApiTests, ran SvtAv1ApiTests --gtest_filter='EncApi*:EncParam*' and the demonstration run.sh; then reverted, rebuilt and re-ran the demonstration (script: /tmp/seed/confirm.sh, this session)"%s,
  "pinned_tests_passing_with_change":42,"demo_exit_with_change":1,"demo_exit_without_change":0},
  "demonstration":"run.sh <worktree> (see notes.md)","author":"independent sub-agent given only the property text (third round)"}, open(d+'/meta.json','w'), indent=1)
print(s, files)
subprocess.run(["git","-C","/repo","worktree","remove","--force","/tmp/seed/"+s]); shutil.rmtree('/tmp/seed/%s_out'%s, ignore_errors=True)
