"""Field list of a struct from clang's record-layout dump of the real header (regenerated every run,
so new fields are included automatically and padding is excluded)."""
import os, re, subprocess
from . import core

def leaf_fields(header, struct, workdir, extra_inc=()):
    src = os.path.join(workdir, "layout_%s.c" % struct)
    with open(src, "w") as f:
        f.write('#include "%s"\nstruct %s __x; int __f(void){return sizeof(__x);}\n' % (header, struct))
    cmd = ["clang-14", "-Xclang", "-fdump-record-layouts", "-fsyntax-only", "-w", "-I" + core.ensure_version_h(workdir), "-I" + core.REPO]
    for d in core.INCLUDE_DIRS:
        cmd.append("-I" + os.path.join(core.REPO, d))
    for d in core.BASE_DEFS:
        cmd.append("-D" + d)
    out = subprocess.run(cmd + [src], stdout=subprocess.PIPE, stderr=subprocess.STDOUT, text=True).stdout
    blocks = out.split("*** Dumping AST Record Layout")
    blk = None
    for b in blocks:
        lines = [l for l in b.splitlines() if "|" in l]
        if lines and re.search(r"\|\s+(struct\s+)?%s\s*$" % re.escape(struct), lines[0]):
            blk = lines
    if blk is None:
        raise RuntimeError("layout of %s not found:\n%s" % (struct, out[-2000:]))
    ents = []
    for l in blk[1:]:
        m = re.match(r"\s*(\d+)(?::[\d-]+)? \|(\s+)(.*?)\s*([A-Za-z_][A-Za-z0-9_]*)\s*$", l)
        if not m:
            continue
        depth = (len(m.group(2)) - 1) // 2
        ents.append((depth, m.group(4), m.group(3)))
    # leaves: entries with no deeper entry following; qualified names
    leaves, stack = [], []
    for i, (d, name, ty) in enumerate(ents):
        stack = stack[:d - 1] + [name]
        is_parent = i + 1 < len(ents) and ents[i + 1][0] > d
        if not is_parent:
            leaves.append((".".join(stack), ty))
    return leaves
