"""Verbatim source slicing: whole functions by name, or a block between two unique anchors.
Missing or ambiguous anchors raise (the check then reports inconclusive, never a silent pass)."""
import os, re
from . import core

def read(path):
    return open(os.path.join(core.REPO, path)).read()

def _strip_comments_keep_len(src):
    """Same-length copy of src with comments and string/char literals blanked (so braces inside them do not count)."""
    out = list(src); i = 0; n = len(src)
    while i < n:
        c = src[i]
        if src.startswith("//", i):
            j = src.find("\n", i); j = n if j < 0 else j
            for k in range(i, j): out[k] = " "
            i = j
        elif src.startswith("/*", i):
            j = src.find("*/", i + 2); j = n if j < 0 else j + 2
            for k in range(i, j):
                if out[k] != "\n": out[k] = " "
            i = j
        elif c in "\"'":
            j = i + 1
            while j < n and src[j] != c:
                j += 2 if src[j] == "\\" else 1
            for k in range(i + 1, min(j, n)): out[k] = " "
            i = j + 1
        else:
            i += 1
    return "".join(out)

def function(src, name):
    """Text of the top-level definition of `name` (from the start of its declaration line to its closing brace)."""
    clean = _strip_comments_keep_len(src)
    depth = [0] * (len(clean) + 1); d = 0
    for i, c in enumerate(clean):
        depth[i] = d
        if c == "{": d += 1
        elif c == "}": d -= 1
    for m in re.finditer(r"\b%s\s*\(" % re.escape(name), clean):
        if depth[m.start()] != 0:
            continue
        pos = m.end(); par = 1
        while par and pos < len(clean):
            par += (clean[pos] == "(") - (clean[pos] == ")"); pos += 1
        k = pos
        while k < len(clean) and clean[k] in " \t\r\n": k += 1
        if k >= len(clean) or clean[k] != "{":
            continue                      # a prototype or a call at file scope, not the definition
        start = clean.rfind("\n", 0, m.start()) + 1
        # include preceding lines of the return type (e.g. "static INLINE int32_t\nname(") up to a blank line / '}' / ';'
        while start > 0:
            prev_end = start - 1; prev_start = clean.rfind("\n", 0, prev_end) + 1
            line = clean[prev_start:prev_end].strip()
            if not line or line.endswith((";", "}", ")")) or line.startswith("#"):
                break
            start = prev_start
        end = k + 1; b = 1
        while b:
            b += (clean[end] == "{") - (clean[end] == "}"); end += 1
        return src[start:end] + "\n"
    raise RuntimeError("function %s not found" % name)

def functions(path, names):
    src = read(path)
    return "/* sliced verbatim from %s */\n" % path + "\n".join(function(src, n) for n in names)

def between(path, a, b, include_b=False):
    src = read(path)
    if src.count(a) != 1:
        raise RuntimeError("start anchor not found exactly once in %s: %r" % (path, a[:60]))
    i = src.index(a)
    j = src.find(b, i + len(a))
    if j < 0:
        raise RuntimeError("end anchor not found after start anchor in %s: %r" % (path, b[:60]))
    blk = src[i:j + (len(b) if include_b else 0)]
    return blk
