"""Verbatim source slicing: whole functions by name, or a block between two unique anchors.
Missing or ambiguous anchors raise (the check then reports inconclusive, never a silent pass)."""
import os, re
from . import core

def read(path):
    return open(os.path.join(core.REPO, path)).read()

def function(src, name):
    # definition: name( ... ) { ... } starting at column 0 return type line(s)
    m = re.search(r"^(?:static\s+|inline\s+|INLINE\s+|EB_API\s+)*[A-Za-z_][A-Za-z0-9_ \*]*?\b%s\s*\([^;{]*?\)\s*\{" % re.escape(name), src, re.M | re.S)
    if not m:
        raise RuntimeError("function %s not found" % name)
    pos = m.end(); depth = 1
    while depth:
        c = src[pos]; depth += (c == "{") - (c == "}"); pos += 1
    return src[m.start():pos] + "\n"

def functions(path, names):
    src = read(path)
    return "/* sliced verbatim from %s */\n" % path + "\n".join(function(src, n) for n in names)

def between(path, a, b, include_b=False):
    src = read(path)
    if src.count(a) != 1:
        raise RuntimeError("start anchor not found exactly once in %s: %r" % (path, a[:60]))
    i = src.index(a)
    j = src.find(b, i + len(a))
    if j < 0:
        raise RuntimeError("end anchor not found after start anchor in %s: %r" % (path, b[:60]))
    blk = src[i:j + (len(b) if include_b else 0)]
    return blk
