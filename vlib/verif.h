/* Common harness prelude.  Every nondeterministic harness input goes through
 * vin*() so that a CBMC counterexample can be replayed by a gcc build of the
 * same harness against the same real source files. */
#ifndef VERIF_H
#define VERIF_H
#include <stdint.h>
#include <stddef.h>
#include <stdlib.h>
#include <stdio.h>
#include <string.h>

#ifndef VIN_MAX
#define VIN_MAX 4096
#endif

#ifdef VERIF_CBMC
uint64_t nondet_u64(void);
/* The runner recovers the input sequence from the counterexample trace: every assignment to the
 * local 'v' of vin64, in execution order.  (No recording array: a counter that becomes symbolic
 * after a conditional call would turn every later record into a symbolic-index array write.) */
#ifdef VIN_KEEP_ALL
/* For queries run with --slice-formula: inputs outside the cone of influence of every assertion are dropped from the
 * equation and from the trace, which shifts the replayed input sequence.  With VIN_KEEP_ALL every input feeds an
 * accumulator that the witness assertion reads, so all of them stay in the trace (the witness still fails on every
 * execution that reaches the end, except for the one accumulator value in 2^64). */
static uint64_t vin_acc;
static inline uint64_t vin64(void) {
    uint64_t v = nondet_u64();
    vin_acc = (vin_acc << 1 | vin_acc >> 63) ^ v;
    return v;
}
#define V_COVER() __CPROVER_assert(vin_acc == 0x9E3779B97F4A7C15ULL, "WITNESS reached")
#else
static inline uint64_t vin64(void) {
    uint64_t v = nondet_u64();
    return v;
}
#define V_COVER() __CPROVER_assert(0, "WITNESS reached")
#endif
#define V_ASSUME(c) __CPROVER_assume(c)
#define V_ASSERT(c, msg) __CPROVER_assert((c), "PROP " msg)
#else
extern const uint64_t __vin_replay[];
extern const unsigned __vin_replay_n;
static unsigned __vin_n = 0;
static inline uint64_t vin64(void) {
    if (__vin_n >= __vin_replay_n) { __vin_n++; return 0; }
    return __vin_replay[__vin_n++];
}
#define V_ASSUME(c) do { if (!(c)) { printf("REPLAY-ASSUME-FAILED %s:%d %s\n", __FILE__, __LINE__, #c); fflush(stdout); _Exit(3); } } while (0)
#define V_ASSERT(c, msg) do { if (!(c)) { printf("REPLAY-VIOLATION %s:%d %s\n", __FILE__, __LINE__, msg); fflush(stdout); _Exit(1); } } while (0)
#define V_COVER() do { } while (0)
#endif

static inline uint8_t  vin8(void)  { return (uint8_t)vin64(); }
static inline uint16_t vin16(void) { return (uint16_t)vin64(); }
static inline uint32_t vin32(void) { return (uint32_t)vin64(); }
static inline int32_t  vini32(void) { return (int32_t)vin64(); }
static inline int      vinbool(void) { return (int)(vin64() & 1); }
/* value in [lo,hi] */
static inline int64_t vin_range(int64_t lo, int64_t hi) {
    int64_t v = (int64_t)vin64();
    V_ASSUME(v >= lo && v <= hi);
    return v;
}
static inline void vin_fill(void *p, size_t n) {
    uint8_t *b = (uint8_t *)p;
    for (size_t i = 0; i < n; i++) b[i] = vin8();
}
/* vacuity guard: the final assert(0) must come back FAILED (reachable end of harness) */
#ifdef V_NO_WITNESS
#define V_END() do {} while (0)
#else
#define V_END() V_COVER()
#endif
#endif
