#define _GNU_SOURCE
#include <dlfcn.h>
#include <stdio.h>
#include <stdlib.h>
#include <string.h>
#include "EbSvtAv1Enc.h"
static long cnt, failk; static int armed;
void *malloc(size_t n) { static void *(*real)(size_t); if (!real) real = dlsym(RTLD_NEXT, "malloc"); if (armed && ++cnt == failk) return NULL; return real(n); }
void *calloc(size_t a, size_t b) { static void *(*real)(size_t, size_t); static int busy; static char boot[4096]; if (!real) { if (busy) return boot; busy = 1; real = dlsym(RTLD_NEXT, "calloc"); busy = 0; } if (armed && ++cnt == failk) return NULL; return real(a, b); }
int main(int argc, char **argv) {
    failk = atol(argv[1]); EbComponentType *h = NULL; EbSvtAv1EncConfiguration cfg;
    armed = 1; EbErrorType e = svt_av1_enc_init_handle(&h, NULL, &cfg); armed = 0;
    printf("k=%ld requests=%ld init_handle returned 0x%x handle=%p\n", failk, cnt, (unsigned)e, (void *)h);
    if (e == EB_ErrorNone) svt_av1_enc_deinit_handle(h);
    return 0; }
