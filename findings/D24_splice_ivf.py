#!/usr/bin/env python3
"""D24 reproducer helper: concatenate the frames of two IVF files (header of the first) -> spliced stream.
usage: D24_splice_ivf.py a8.ivf a10.ivf out.ivf
Encode e.g. 128x128 3 frames --preset 4 once with 8-bit and once with --input-depth 10, splice, then run
valgrind SvtAv1DecApp -i out.ivf -o out.yuv : before fix 7f755a4 'Invalid write ... save_deblock_boundary_lines ... alloc'd by init_lr_ctxt'."""
import struct, sys
def frames(p):
    d = open(p, 'rb').read(); o = 32; fr = []
    while o < len(d):
        sz, _ = struct.unpack('<IQ', d[o:o + 12]); fr.append(d[o + 12:o + 12 + sz]); o += 12 + sz
    return d[:32], fr
h, f1 = frames(sys.argv[1]); _, f2 = frames(sys.argv[2])
out = bytearray(h)
for i, f in enumerate(f1 + f2): out += struct.pack('<IQ', len(f), i) + f
open(sys.argv[3], 'wb').write(out)
