#!/usr/bin/env python3
"""setup_cmd: nothing to build ahead of time (harnesses are compiled from /repo on every run);
verifies that the tools the checks need are present."""
import shutil, sys
missing = [t for t in ("cbmc", "goto-cc", "goto-instrument", "gcc", "clang-14", "z3", "cvc5", "kissat") if not shutil.which(t)]
if missing:
    print("missing tools:", missing); sys.exit(1)
print("setup ok")
